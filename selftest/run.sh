#!/bin/bash
# Sensitivity proof: every patch under selftest/<ID>/ compiles and breaks
# property <ID>; the check must report a VIOLATION for it within the quick
# budget, and exit 0 on the unpatched tree.
#
#   selftest/run.sh [ID ...] [--with-tests] [--tier quick|thorough]
#
# Patches are applied to /repo's working tree and reverted straight away
# (never committed).
cd "$(dirname "$0")/.."
ids=(); with_tests=0; tier=quick
while [ $# -gt 0 ]; do
    case "$1" in
        --with-tests) with_tests=1 ;;
        --tier) shift; tier=$1 ;;
        *) ids+=("$1") ;;
    esac; shift
done
[ ${#ids[@]} -eq 0 ] && ids=($(ls selftest | grep -E '^C[0-9]+$'))
if [ -n "$(git -C /repo status --porcelain)" ]; then echo "/repo is dirty; refusing"; exit 2; fi
trap '(git -C /repo checkout -- . && git -C /repo clean -fdq src tests) 2>/dev/null' EXIT
fail=0
for id in "${ids[@]}"; do
    out=$(./check "$id" "$tier" 2>&1); rc=$?
    if [ $rc -ne 0 ]; then echo "FAIL  $id unpatched tree: exit $rc"; echo "$out" | tail -5; fail=1; else echo "ok    $id unpatched tree: exit 0"; fi
    for p in selftest/$id/*.diff; do
        [ -e "$p" ] || continue
        name=$(basename "$p" .diff)
        if ! git -C /repo apply "$PWD/$p" 2>/dev/null; then echo "FAIL  $id/$name: patch does not apply"; fail=1; continue; fi
        if [ $with_tests -eq 1 ]; then
            n=$(cd /repo && cargo test --workspace --no-fail-fast --offline 2>&1 | grep -cE "^test .* \.\.\. ok$")
            [ "$n" -ge 217 ] || { echo "NOTE  $id/$name: only $n repo tests pass (expected >= 217)"; }
        fi
        out=$(./check "$id" "$tier" 2>&1); rc=$?
        git -C /repo checkout -- . && git -C /repo clean -fdq src tests
        if [ $rc -eq 1 ] && echo "$out" | grep -q "^VIOLATION property=$id "; then
            echo "ok    $id/$name: detected ($(echo "$out" | grep -m1 '^violation rule=' | cut -c1-150))"
        else
            echo "FAIL  $id/$name: not detected (exit $rc)"; echo "$out" | tail -3; fail=1
        fi
    done
    # behaviour-preserving refactorings: the check must stay silent
    for p in selftest/$id/equivalent/*.diff; do
        [ -e "$p" ] || continue
        name=$(basename "$p" .diff)
        if ! git -C /repo apply "$PWD/$p" 2>/dev/null; then echo "FAIL  $id/equivalent/$name: patch does not apply"; fail=1; continue; fi
        out=$(./check "$id" "$tier" 2>&1); rc=$?
        git -C /repo checkout -- . && git -C /repo clean -fdq src tests
        if [ $rc -eq 0 ]; then echo "ok    $id/equivalent/$name: no alarm"; else echo "FAIL  $id/equivalent/$name: alarm on behaviour-preserving change (exit $rc)"; echo "$out" | tail -3; fail=1; fi
    done
done
exit $fail
