/* Clock seam for the process world.
 *
 * Preloaded (LD_PRELOAD) into the `rrss` binary by the harness: every reading
 * of a clock goes through here, so the simulator decides what time it is in
 * the child - a skewed wall clock, and time that passes as fast as the
 * simulator says (each reading of a clock moves all clocks forward by a
 * fixed step, so "two seconds later" costs two readings, not two seconds).
 *
 *   RRSS_VERIF_CLOCK_OFFSET_S   added to the real-time clocks (may be negative)
 *   RRSS_VERIF_CLOCK_STEP_MS    every reading advances all clocks by this much
 *   RRSS_VERIF_CLOCK_REPORT     file to which the number of readings is written
 *                               when the process ends (how much simulated time
 *                               the run covered is readings x step)
 *
 * With neither variable set the shim changes nothing. Monotonic clocks stay
 * monotonic (offset and steps only ever grow). Sleeping is not intercepted.
 */
#define _GNU_SOURCE
#include <dlfcn.h>
#include <fcntl.h>
#include <stdio.h>
#include <stdlib.h>
#include <unistd.h>
#include <sys/time.h>
#include <time.h>

static long long offset_ns, step_ns, readings;
static int ready;

static void setup(void) {
    if (ready) return;
    const char *e = getenv("RRSS_VERIF_CLOCK_OFFSET_S");
    offset_ns = e ? atoll(e) * 1000000000LL : 0;
    e = getenv("RRSS_VERIF_CLOCK_STEP_MS");
    step_ns = e ? atoll(e) * 1000000LL : 0;
    ready = 1;
}

static long long shift(int realtime) {
    setup();
    long long s = step_ns * (readings++);
    return realtime ? s + offset_ns : s;
}

static void add_ns(struct timespec *ts, long long ns) {
    long long total = (long long)ts->tv_sec * 1000000000LL + ts->tv_nsec + ns;
    if (total < 0) total = 0;
    ts->tv_sec = total / 1000000000LL;
    ts->tv_nsec = total % 1000000000LL;
}

static int is_realtime(clockid_t id) {
    return id == CLOCK_REALTIME || id == CLOCK_REALTIME_COARSE
#ifdef CLOCK_TAI
        || id == CLOCK_TAI
#endif
        ;
}

int clock_gettime(clockid_t id, struct timespec *ts) {
    static int (*real)(clockid_t, struct timespec *);
    if (!real) real = (int (*)(clockid_t, struct timespec *))dlsym(RTLD_NEXT, "clock_gettime");
    int r = real(id, ts);
    if (r == 0 && ts && id != CLOCK_PROCESS_CPUTIME_ID && id != CLOCK_THREAD_CPUTIME_ID)
        add_ns(ts, shift(is_realtime(id)));
    return r;
}

int gettimeofday(struct timeval *tv, void *tz) {
    static int (*real)(struct timeval *, void *);
    if (!real) real = (int (*)(struct timeval *, void *))dlsym(RTLD_NEXT, "gettimeofday");
    int r = real(tv, tz);
    if (r == 0 && tv) {
        struct timespec ts = { tv->tv_sec, tv->tv_usec * 1000L };
        add_ns(&ts, shift(1));
        tv->tv_sec = ts.tv_sec;
        tv->tv_usec = ts.tv_nsec / 1000L;
    }
    return r;
}

time_t time(time_t *out) {
    struct timespec ts;
    if (clock_gettime(CLOCK_REALTIME, &ts) != 0) return (time_t)-1;
    if (out) *out = ts.tv_sec;
    return ts.tv_sec;
}

__attribute__((destructor)) static void report(void) {
    const char *path = getenv("RRSS_VERIF_CLOCK_REPORT");
    if (!path) return;
    int fd = open(path, O_WRONLY | O_CREAT | O_TRUNC, 0600);
    if (fd < 0) return;
    char buf[32];
    int n = snprintf(buf, sizeof buf, "%lld\n", readings);
    if (n > 0 && write(fd, buf, (size_t)n) < 0) { /* nothing to be done */ }
    close(fd);
}
