//! Stream world: a `Read` and a `Write` that share one recorded history and
//! whose every call is decided by a schedule (chunking, transient
//! interruptions, one hard fault at a chosen position).

use std::cell::RefCell;
use std::io::{self, ErrorKind, Read, Write};
use std::rc::Rc;

use crate::json::{render_bytes, J};
use crate::rng::{hash_combine, Rng};

#[derive(Clone, Copy, Debug, PartialEq, Eq)]
pub enum ChunkMode {
    /// everything that fits, at once
    All,
    /// up to and including the next newline
    Line,
    /// one byte per call
    Byte,
    /// random sizes (may split multi-byte characters and land on newlines)
    Random,
}

impl ChunkMode {
    pub fn name(self) -> &'static str {
        match self {
            ChunkMode::All => "all-at-once",
            ChunkMode::Line => "line-at-a-time",
            ChunkMode::Byte => "byte-at-a-time",
            ChunkMode::Random => "random-chunks",
        }
    }
}

#[derive(Clone, Copy, Debug, PartialEq, Eq)]
pub enum ReadFaultKind {
    /// `Err(kind)`
    Hard(ErrorKind),
    /// premature end of input: `Ok(0)` from here on (input truncated)
    Eof,
}

#[derive(Clone, Copy, Debug, PartialEq, Eq)]
pub enum ReadFaultAt {
    /// the reader starts to fail once this many bytes have been delivered
    Byte(usize),
    /// the n-th `read` call (0-based) fails
    Call(usize),
}

#[derive(Clone, Copy, Debug, PartialEq, Eq)]
pub enum WriteFaultKind {
    Hard(ErrorKind),
    /// `Ok(0)`
    Zero,
}

#[derive(Clone, Debug)]
pub struct Schedule {
    pub chunk: ChunkMode,
    /// short writes: accept a random non-empty prefix
    pub short_writes: bool,
    /// per-mille probability of a transient `Interrupted` per call
    pub eintr_read_pm: u32,
    pub eintr_write_pm: u32,
    /// seed of the per-call decisions of this schedule
    pub seed: u64,
    pub read_fault: Option<(ReadFaultAt, ReadFaultKind)>,
    /// the writer starts to fail once this many bytes have been accepted
    pub write_fault: Option<(usize, WriteFaultKind)>,
    /// flush fails (only observable if the code under test flushes)
    pub flush_fault: bool,
}

impl Schedule {
    pub fn plain() -> Self {
        Schedule {
            chunk: ChunkMode::All,
            short_writes: false,
            eintr_read_pm: 0,
            eintr_write_pm: 0,
            seed: 0,
            read_fault: None,
            write_fault: None,
            flush_fault: false,
        }
    }

    pub fn is_benign(&self) -> bool {
        self.read_fault.is_none() && self.write_fault.is_none() && !self.flush_fault
    }

    pub fn to_json(&self) -> J {
        J::obj(vec![
            ("delivery", J::s(self.chunk.name())),
            ("short_writes", J::Bool(self.short_writes)),
            ("eintr_read_per_mille", J::U(self.eintr_read_pm as u64)),
            ("eintr_write_per_mille", J::U(self.eintr_write_pm as u64)),
            ("schedule_seed", J::U(self.seed)),
            (
                "read_fault",
                match &self.read_fault {
                    None => J::Null,
                    Some((at, kind)) => J::s(format!("{:?} at {:?}", kind, at)),
                },
            ),
            (
                "write_fault",
                match &self.write_fault {
                    None => J::Null,
                    Some((at, kind)) => J::s(format!("{:?} once {} bytes were accepted", kind, at)),
                },
            ),
            ("flush_fault", J::Bool(self.flush_fault)),
        ])
    }
}

#[derive(Clone, Debug, PartialEq, Eq)]
pub enum Ev {
    Read {
        cap: usize,
        /// bytes of output accepted when the call was made
        out_len: usize,
        res: ReadRes,
    },
    Write {
        len: usize,
        res: WriteRes,
    },
    Flush {
        ok: bool,
    },
}

#[derive(Clone, Debug, PartialEq, Eq)]
pub enum ReadRes {
    Data(usize),
    Eof,
    Eintr,
    Hard(ErrorKind),
    /// a call made after the hard fault (the violation P2 looks for)
    AfterFault,
}

#[derive(Clone, Debug, PartialEq, Eq)]
pub enum WriteRes {
    Accepted(usize),
    Eintr,
    Zero,
    Hard(ErrorKind),
    AfterFault,
}


#[derive(Clone)]
pub struct World {
    pub input: Vec<u8>,
    pub rpos: usize,
    pub accepted: Vec<u8>,
    pub events: Vec<Ev>,
    pub sched: Schedule,
    rng: Rng,
    pub read_calls: usize,
    /// index of the event at which the first hard fault was injected
    pub fault_at_event: Option<usize>,
    pub calls_after_fault: usize,
    pub eof_sticky: bool,
    pub eintr_run: u32,
    pub calls: usize,
    pub budget_exceeded: bool,
    pub call_budget: usize,
    /// newlines delivered / Ok(0) returned so far (identify the executing listen)
    pub newlines_delivered: usize,
    pub eofs_returned: usize,
    /// (listen index j = m + e + 1, output length) at each read call
    pub read_points: Vec<(usize, usize)>,
    /// which fault kinds actually fired
    pub fired: Vec<&'static str>,
    pub probe_short_write_split_char: bool,
    pub probe_eintr_before_newline: bool,
    pub probe_read_split_char: bool,
}

impl World {
    /// `call_budget`: bound on stream calls per run (bounded progress)
    pub fn new(input: Vec<u8>, sched: Schedule, call_budget: usize) -> Rc<RefCell<World>> {
        let rng = Rng::new(sched.seed ^ 0x5eed_5eed);
        Rc::new(RefCell::new(World {
            input,
            rpos: 0,
            accepted: Vec::new(),
            events: Vec::new(),
            sched,
            rng,
            read_calls: 0,
            fault_at_event: None,
            calls_after_fault: 0,
            eof_sticky: false,
            eintr_run: 0,
            calls: 0,
            budget_exceeded: false,
            call_budget,
            newlines_delivered: 0,
            eofs_returned: 0,
            read_points: Vec::new(),
            fired: Vec::new(),
            probe_short_write_split_char: false,
            probe_eintr_before_newline: false,
            probe_read_split_char: false,
        }))
    }

    pub fn snapshot(w: &World) -> World {
        w.clone()
    }

    fn tick(&mut self) {
        self.calls += 1;
        if self.calls > self.call_budget {
            self.budget_exceeded = true;
            if self.calls > self.call_budget + 64 {
                // a loop that ignores errors: unwind out of the code under test
                panic!("SIM-BUDGET: stream call budget exhausted");
            }
        }
    }

    fn hard_fault_happened(&self) -> bool {
        self.fault_at_event.is_some()
    }

    fn do_read(&mut self, buf: &mut [u8]) -> io::Result<usize> {
        self.tick();
        let out_len = self.accepted.len();
        let call_index = self.read_calls;
        self.read_calls += 1;
        if self.budget_exceeded {
            self.events.push(Ev::Read {
                cap: buf.len(),
                out_len,
                res: ReadRes::Hard(ErrorKind::Other),
            });
            return Err(io::Error::new(ErrorKind::Other, "simulated: call budget exhausted"));
        }
        if self.hard_fault_happened() {
            self.calls_after_fault += 1;
            self.events.push(Ev::Read {
                cap: buf.len(),
                out_len,
                res: ReadRes::AfterFault,
            });
            return Err(io::Error::new(ErrorKind::Other, "simulated: stream already failed"));
        }
        if buf.is_empty() {
            self.events.push(Ev::Read {
                cap: 0,
                out_len,
                res: ReadRes::Data(0),
            });
            return Ok(0);
        }
        self.read_points
            .push((self.newlines_delivered + self.eofs_returned + 1, out_len));
        // transient interruption (finite bursts)
        if self.sched.eintr_read_pm > 0
            && self.eintr_run < 3
            && self.rng.below(1000) < self.sched.eintr_read_pm
        {
            self.eintr_run += 1;
            self.fired.push("read.eintr");
            self.events.push(Ev::Read {
                cap: buf.len(),
                out_len,
                res: ReadRes::Eintr,
            });
            return Err(io::Error::new(ErrorKind::Interrupted, "simulated EINTR"));
        }
        self.eintr_run = 0;
        // fault position reached?
        let mut limit = self.input.len();
        if let Some((at, kind)) = self.sched.read_fault {
            let now = match at {
                ReadFaultAt::Byte(p) => {
                    limit = limit.min(p);
                    self.rpos >= p.min(self.input.len()) && p <= self.input.len()
                }
                ReadFaultAt::Call(c) => call_index == c,
            };
            if now && !self.eof_sticky {
                match kind {
                    ReadFaultKind::Hard(k) => {
                        self.fault_at_event = Some(self.events.len());
                        self.fired.push("read.hard");
                        self.events.push(Ev::Read {
                            cap: buf.len(),
                            out_len,
                            res: ReadRes::Hard(k),
                        });
                        return Err(io::Error::new(k, "simulated read failure"));
                    }
                    ReadFaultKind::Eof => {
                        if self.rpos < self.input.len() {
                            self.fired.push("read.premature_eof");
                        }
                        self.eof_sticky = true;
                    }
                }
            }
        }
        if self.eof_sticky || self.rpos >= limit {
            if self.rpos >= self.input.len() || self.eof_sticky {
                self.eofs_returned += 1;
                self.events.push(Ev::Read {
                    cap: buf.len(),
                    out_len,
                    res: ReadRes::Eof,
                });
                return Ok(0);
            }
        }
        let avail = (limit - self.rpos).min(buf.len());
        debug_assert!(avail > 0);
        let rest = &self.input[self.rpos..self.rpos + avail];
        let n = match self.sched.chunk {
            ChunkMode::All => avail,
            ChunkMode::Byte => 1,
            ChunkMode::Line => rest.iter().position(|b| *b == b'\n').map_or(avail, |p| p + 1),
            ChunkMode::Random => {
                // bias towards small chunks and towards stopping at a newline
                let r = self.rng.below(8);
                if r == 0 {
                    avail
                } else if r <= 2 {
                    rest.iter().position(|b| *b == b'\n').map_or(avail, |p| p + 1)
                } else {
                    1 + self.rng.below(avail.min(7) as u32) as usize
                }
            }
        };
        let chunk = &self.input[self.rpos..self.rpos + n];
        buf[..n].copy_from_slice(chunk);
        self.newlines_delivered += chunk.iter().filter(|b| **b == b'\n').count();
        self.rpos += n;
        if self.rpos < self.input.len() && (self.input[self.rpos] & 0xC0) == 0x80 {
            self.probe_read_split_char = true;
        }
        self.events.push(Ev::Read {
            cap: buf.len(),
            out_len,
            res: ReadRes::Data(n),
        });
        Ok(n)
    }

    fn do_write(&mut self, buf: &[u8]) -> io::Result<usize> {
        self.tick();
        if self.budget_exceeded {
            self.events.push(Ev::Write {
                len: buf.len(),
                res: WriteRes::Hard(ErrorKind::Other),
            });
            return Err(io::Error::new(ErrorKind::Other, "simulated: call budget exhausted"));
        }
        if self.hard_fault_happened() {
            self.calls_after_fault += 1;
            self.events.push(Ev::Write {
                len: buf.len(),
                res: WriteRes::AfterFault,
            });
            return Err(io::Error::new(ErrorKind::Other, "simulated: stream already failed"));
        }
        if buf.is_empty() {
            self.events.push(Ev::Write {
                len: 0,
                res: WriteRes::Accepted(0),
            });
            return Ok(0);
        }
        if self.sched.eintr_write_pm > 0
            && self.eintr_run < 3
            && self.rng.below(1000) < self.sched.eintr_write_pm
        {
            self.eintr_run += 1;
            self.fired.push("write.eintr");
            if buf == b"\n" {
                self.probe_eintr_before_newline = true;
            }
            self.events.push(Ev::Write {
                len: buf.len(),
                res: WriteRes::Eintr,
            });
            return Err(io::Error::new(ErrorKind::Interrupted, "simulated EINTR"));
        }
        self.eintr_run = 0;
        let mut room = usize::MAX;
        if let Some((at, kind)) = self.sched.write_fault {
            if self.accepted.len() >= at {
                self.fault_at_event = Some(self.events.len());
                return match kind {
                    WriteFaultKind::Hard(k) => {
                        self.fired.push("write.hard");
                        self.events.push(Ev::Write {
                            len: buf.len(),
                            res: WriteRes::Hard(k),
                        });
                        Err(io::Error::new(k, "simulated write failure"))
                    }
                    WriteFaultKind::Zero => {
                        self.fired.push("write.zero");
                        self.events.push(Ev::Write {
                            len: buf.len(),
                            res: WriteRes::Zero,
                        });
                        Ok(0)
                    }
                };
            }
            room = at - self.accepted.len();
        }
        let mut n = buf.len().min(room);
        if n < buf.len() {
            self.fired.push("write.short_before_fault");
        }
        if self.sched.short_writes && n > 1 && self.rng.below(2) == 0 {
            n = 1 + self.rng.below(n as u32 - 1) as usize;
            self.fired.push("write.short");
        }
        if n < buf.len() && (buf[n] & 0xC0) == 0x80 {
            self.probe_short_write_split_char = true;
        }
        self.accepted.extend_from_slice(&buf[..n]);
        self.events.push(Ev::Write {
            len: buf.len(),
            res: WriteRes::Accepted(n),
        });
        Ok(n)
    }

    fn do_flush(&mut self) -> io::Result<()> {
        self.tick();
        if self.sched.flush_fault && !self.hard_fault_happened() {
            self.fault_at_event = Some(self.events.len());
            self.fired.push("flush.hard");
            self.events.push(Ev::Flush { ok: false });
            return Err(io::Error::new(ErrorKind::Other, "simulated flush failure"));
        }
        self.events.push(Ev::Flush { ok: true });
        Ok(())
    }

    /// Identity of the history: kinds of events with sizes bucketed.
    pub fn history_hash(&self) -> u64 {
        let mut h = 0x1234_5678u64;
        for e in &self.events {
            let code: u64 = match e {
                Ev::Read { res, .. } => match res {
                    ReadRes::Data(n) => 0x100 + bucket(*n),
                    ReadRes::Eof => 0x110,
                    ReadRes::Eintr => 0x111,
                    ReadRes::Hard(_) => 0x112,
                    ReadRes::AfterFault => 0x113,
                },
                Ev::Write { len, res } => match res {
                    WriteRes::Accepted(n) => {
                        0x200 + bucket(*n) + if n < len { 0x20 } else { 0 }
                    }
                    WriteRes::Eintr => 0x240,
                    WriteRes::Zero => 0x241,
                    WriteRes::Hard(_) => 0x242,
                    WriteRes::AfterFault => 0x243,
                },
                Ev::Flush { ok } => 0x300 + *ok as u64,
            };
            h = hash_combine(h, code);
        }
        h
    }

    /// Exact identity of the history (for replay comparison).
    pub fn exact_hash(&self) -> u64 {
        let mut h = 0x9999u64;
        for e in &self.events {
            let (a, b, c): (u64, u64, u64) = match e {
                Ev::Read { cap, out_len, res } => (
                    1 + ((*cap as u64) << 8),
                    *out_len as u64,
                    match res {
                        ReadRes::Data(n) => 10 + ((*n as u64) << 8),
                        ReadRes::Eof => 11,
                        ReadRes::Eintr => 12,
                        ReadRes::Hard(k) => 13 + ((*k as u64) << 8),
                        ReadRes::AfterFault => 14,
                    },
                ),
                Ev::Write { len, res } => (
                    2,
                    *len as u64,
                    match res {
                        WriteRes::Accepted(n) => 20 + ((*n as u64) << 8),
                        WriteRes::Eintr => 21,
                        WriteRes::Zero => 22,
                        WriteRes::Hard(k) => 23 + ((*k as u64) << 8),
                        WriteRes::AfterFault => 24,
                    },
                ),
                Ev::Flush { ok } => (3, *ok as u64, 0),
            };
            h = hash_combine(hash_combine(hash_combine(h, a), b), c);
        }
        hash_combine(h, crate::rng::hash_bytes(&self.accepted))
    }

    pub fn events_json(&self, max: usize) -> J {
        let mut items: Vec<J> = Vec::new();
        let n = self.events.len();
        for (i, e) in self.events.iter().enumerate() {
            if n > max && i >= max / 2 && i < n - max / 2 {
                if i == max / 2 {
                    items.push(J::s(format!("... {} events elided ...", n - max)));
                }
                continue;
            }
            items.push(J::s(format!("#{} {:?}", i, e)));
        }
        J::A(items)
    }

    pub fn accepted_json(&self) -> J {
        J::S(render_bytes(&self.accepted))
    }
}

fn bucket(n: usize) -> u64 {
    match n {
        0 => 0,
        1 => 1,
        2..=3 => 2,
        4..=7 => 3,
        8..=31 => 4,
        _ => 5,
    }
}

pub struct SimReader(pub Rc<RefCell<World>>);
pub struct SimWriter(pub Rc<RefCell<World>>);

impl Read for SimReader {
    fn read(&mut self, buf: &mut [u8]) -> io::Result<usize> {
        self.0.borrow_mut().do_read(buf)
    }
}

impl Write for SimWriter {
    fn write(&mut self, buf: &[u8]) -> io::Result<usize> {
        self.0.borrow_mut().do_write(buf)
    }
    fn flush(&mut self) -> io::Result<()> {
        self.0.borrow_mut().do_flush()
    }
}
