//! Process world: the real `rrss` binary (built from the working tree with
//! the hasher hook) run in a fully controlled world: argv, environment,
//! working directory, file system view, fds 0/1/2.

use std::fs::{self, File, OpenOptions};
use std::io::{Read, Write};
use std::path::{Path, PathBuf};
use std::process::{Command, Stdio};
use std::sync::atomic::{AtomicU64, Ordering};

use crate::json::{render_bytes, J};

#[derive(Clone, Copy, Debug, PartialEq, Eq)]
pub enum StdinKind {
    /// a regular file holding the bytes
    File,
    /// a pipe fed by a writer thread and then closed
    Pipe,
    /// /dev/null (only when the input is empty)
    DevNull,
    /// a pipe whose writer is a slow producer: the bytes arrive in the pieces
    /// given by `ProcSpec::stdin_cuts`, each piece only once the program has
    /// used up the previous one and waits for more (or a short time passed)
    Trickle,
}

#[derive(Clone, Debug)]
pub struct ProcSpec {
    pub args: Vec<std::ffi::OsString>,
    pub env: Vec<(String, String)>,
    pub cwd: PathBuf,
    pub stdin: Vec<u8>,
    pub stdin_kind: StdinKind,
    /// with StdinKind::Trickle: ascending byte offsets at which the writer
    /// pauses
    pub stdin_cuts: Vec<usize>,
    /// stdout and stderr share one open file description (append mode), so
    /// the file's byte order is the order of the write syscalls
    pub shared_out_err: bool,
    /// start the binary in a working directory that no longer exists (made,
    /// entered and removed by a /bin/sh wrapper that then execs the binary)
    pub removed_cwd: bool,
    /// standard output is a pipe whose reader stalls for this many
    /// milliseconds before it starts reading (a slow consumer); stderr goes
    /// to a file
    pub stalled_stdout_reader_ms: u64,
}

#[derive(Clone, Debug, PartialEq, Eq)]
pub struct ProcResult {
    pub stdout: Vec<u8>,
    pub stderr: Vec<u8>,
    /// only with shared_out_err: the combined file in write order
    pub combined: Option<Vec<u8>>,
    pub code: Option<i32>,
    pub signal: Option<i32>,
    pub timed_out: bool,
}

pub const CHILD_TIMEOUT_S: u64 = 30;

impl ProcResult {
    pub fn to_json(&self) -> J {
        J::obj(vec![
            ("stdout", J::S(render_bytes(&self.stdout))),
            ("stderr", J::S(render_bytes(&self.stderr))),
            (
                "combined",
                match &self.combined {
                    Some(c) => J::S(render_bytes(c)),
                    None => J::Null,
                },
            ),
            ("exit_code", self.code.map_or(J::Null, |c| J::I(c as i64))),
            ("signal", self.signal.map_or(J::Null, |c| J::I(c as i64))),
            ("timed_out", J::Bool(self.timed_out)),
        ])
    }
}

pub fn rrss_bin() -> PathBuf {
    PathBuf::from(
        std::env::var("RRSS_BIN")
            .unwrap_or_else(|_| "/verif/target/rrss-bin/debug/rrss".to_string()),
    )
}

/// The clock seam of the process world: environment that makes the child
/// read its clocks through the preloaded shim (sim/clockshim). The wall clock
/// is `offset_s` away from the real one and every reading of any clock moves
/// time forward by `step_ms`, so seconds and minutes pass within one run.
/// Empty if the shim could not be built (the world then runs unskewed).
pub fn clock_env(offset_s: i64, step_ms: u64) -> Vec<(String, String)> {
    let shim = crate::driver::verif_dir().join("target").join("clockshim.so");
    if !shim.exists() {
        return Vec::new();
    }
    vec![
        ("LD_PRELOAD".to_string(), shim.to_string_lossy().into_owned()),
        ("RRSS_VERIF_CLOCK_OFFSET_S".to_string(), offset_s.to_string()),
        ("RRSS_VERIF_CLOCK_STEP_MS".to_string(), step_ms.to_string()),
    ]
}

/// Readings of a clock made by children under the shim, and the simulated
/// time they covered (readings x step), summed over the batch (evidence).
pub static CLOCK_READINGS: AtomicU64 = AtomicU64::new(0);
pub static CLOCK_SIMULATED_MS: AtomicU64 = AtomicU64::new(0);
pub static CLOCK_WORLDS: AtomicU64 = AtomicU64::new(0);

/// Called after a child that ran under the shim has ended.
pub fn account_clock(report: &Path, env: &[(String, String)]) {
    let step: u64 = env
        .iter()
        .find(|(k, _)| k == "RRSS_VERIF_CLOCK_STEP_MS")
        .and_then(|(_, v)| v.parse().ok())
        .unwrap_or(0);
    CLOCK_WORLDS.fetch_add(1, Ordering::Relaxed);
    if let Ok(text) = fs::read_to_string(report) {
        if let Ok(n) = text.trim().parse::<u64>() {
            CLOCK_READINGS.fetch_add(n, Ordering::Relaxed);
            CLOCK_SIMULATED_MS.fetch_add(n.saturating_mul(step), Ordering::Relaxed);
        }
    }
    let _ = fs::remove_file(report);
}

/// A skew derived from a hash (for callers without a choice tape): up to
/// about +-30 years, 0.7 to 90 s per reading.
pub fn clock_env_for(h: u64) -> Vec<(String, String)> {
    let offset = (h % 2_000_000_000) as i64 - 1_000_000_000;
    let step = [700u64, 1500, 2500, 61_000, 90_000][(h >> 32) as usize % 5];
    clock_env(offset, step)
}

static DIR_COUNTER: AtomicU64 = AtomicU64::new(0);

/// Held around every spawn, and by a peer for the short time between closing
/// its end of a pipe and the child meeting the closed pipe: a process being
/// forked by another worker holds copies of all descriptors until its exec,
/// which would keep the pipe open for that instant (descriptor inheritance
/// race). With the lock the fault lands deterministically.
pub static SPAWN_LOCK: std::sync::Mutex<()> = std::sync::Mutex::new(());

/// A private scratch directory (removed on drop).
pub struct Scratch {
    pub path: PathBuf,
}

impl Scratch {
    pub fn new() -> std::io::Result<Scratch> {
        let base = crate::driver::verif_dir().join("target").join("scratch");
        let n = DIR_COUNTER.fetch_add(1, Ordering::Relaxed);
        let path = base.join(format!("p{}-{}", std::process::id(), n));
        fs::create_dir_all(&path)?;
        Ok(Scratch { path })
    }
    pub fn file(&self, name: &str, content: &[u8]) -> std::io::Result<PathBuf> {
        let p = self.path.join(name);
        if let Some(parent) = p.parent() {
            fs::create_dir_all(parent)?;
        }
        fs::write(&p, content)?;
        Ok(p)
    }
}

impl Drop for Scratch {
    fn drop(&mut self) {
        let _ = fs::remove_dir_all(&self.path);
    }
}

/// Strips ANSI SGR sequences (ESC [ ... m).
pub fn strip_sgr(b: &[u8]) -> Vec<u8> {
    let mut out = Vec::with_capacity(b.len());
    let mut i = 0;
    while i < b.len() {
        if b[i] == 0x1b && i + 1 < b.len() && b[i + 1] == b'[' {
            let mut j = i + 2;
            while j < b.len() && (b[j] == b';' || b[j].is_ascii_digit()) {
                j += 1;
            }
            if j < b.len() && b[j] == b'm' {
                i = j + 1;
                continue;
            }
        }
        out.push(b[i]);
        i += 1;
    }
    out
}

extern "C" {
    fn ioctl(fd: i32, request: u64, ...) -> i32;
}

/// No unread bytes are left in the pipe this is the write end of.
fn pipe_is_empty(w: &std::process::ChildStdin) -> bool {
    use std::os::unix::io::AsRawFd;
    const FIONREAD: u64 = 0x541B;
    let mut n: i32 = -1;
    let rc = unsafe { ioctl(w.as_raw_fd(), FIONREAD, &mut n as *mut i32) };
    rc == 0 && n == 0
}

/// A panic report names the panicking thread with its id in the operating
/// system ("thread 'main' (12345) panicked at"), which differs from process to
/// process: the digits are replaced by '#'.
pub fn neutralise_panic_thread_id(b: &[u8]) -> Vec<u8> {
    let mut out = Vec::with_capacity(b.len());
    let mut i = 0;
    while i < b.len() {
        if b[i] == b'(' {
            let mut j = i + 1;
            while j < b.len() && b[j].is_ascii_digit() {
                j += 1;
            }
            if j > i + 1 && b[j..].starts_with(b") panicked at") && out.ends_with(b"' ") {
                out.extend_from_slice(b"(#");
                i = j;
                continue;
            }
        }
        out.push(b[i]);
        i += 1;
    }
    out
}

pub fn contains(hay: &[u8], needle: &[u8]) -> bool {
    needle.is_empty() || hay.windows(needle.len()).any(|w| w == needle)
}

/// Runs the binary once. Errors are harness errors (cannot spawn etc.).
pub fn run(spec: &ProcSpec, scratch: &Scratch, tag: &str) -> Result<ProcResult, String> {
    crate::driver::heartbeat();
    let bin = rrss_bin();
    let out_path = scratch.path.join(format!("{}.out", tag));
    let err_path = scratch.path.join(format!("{}.err", tag));
    let mut cmd = if spec.removed_cwd {
        let mut c = Command::new("/bin/sh");
        c.arg("-c")
            .arg("mkdir gone.$$ && cd gone.$$ && rmdir ../gone.$$ && exec \"$0\" \"$@\"")
            .arg(&bin);
        c
    } else {
        Command::new(&bin)
    };
    cmd.args(&spec.args).env_clear().current_dir(&spec.cwd);
    for (k, v) in &spec.env {
        cmd.env(k, v);
    }
    let clock_report = if spec.env.iter().any(|(k, _)| k == "RRSS_VERIF_CLOCK_STEP_MS") {
        let p = scratch.path.join(format!("{}.clock", tag));
        cmd.env("RRSS_VERIF_CLOCK_REPORT", &p);
        Some(p)
    } else {
        None
    };
    let open_append = |p: &Path| -> Result<File, String> {
        OpenOptions::new()
            .create(true)
            .append(true)
            .open(p)
            .map_err(|e| format!("open {}: {}", p.display(), e))
    };
    let _ = fs::remove_file(&out_path);
    let _ = fs::remove_file(&err_path);
    if spec.stalled_stdout_reader_ms > 0 {
        cmd.stdout(Stdio::piped())
            .stderr(Stdio::from(open_append(&err_path)?));
    } else if spec.shared_out_err {
        let f = open_append(&out_path)?;
        let g = f.try_clone().map_err(|e| e.to_string())?;
        cmd.stdout(Stdio::from(f)).stderr(Stdio::from(g));
    } else {
        cmd.stdout(Stdio::from(open_append(&out_path)?))
            .stderr(Stdio::from(open_append(&err_path)?));
    }
    match spec.stdin_kind {
        StdinKind::File => {
            let p = scratch
                .file(&format!("{}.stdin", tag), &spec.stdin)
                .map_err(|e| e.to_string())?;
            cmd.stdin(Stdio::from(File::open(p).map_err(|e| e.to_string())?));
        }
        StdinKind::Pipe | StdinKind::Trickle => {
            cmd.stdin(Stdio::piped());
        }
        StdinKind::DevNull => {
            cmd.stdin(Stdio::null());
        }
    }
    let mut child = {
        let _guard = SPAWN_LOCK.lock().unwrap_or_else(|e| e.into_inner());
        cmd.spawn()
            .map_err(|e| format!("cannot spawn {}: {}", bin.display(), e))?
    };
    let feeder = if spec.stdin_kind == StdinKind::Pipe {
        let mut stdin = child.stdin.take().unwrap();
        let data = spec.stdin.clone();
        Some(std::thread::spawn(move || {
            // the child may exit without reading everything: EPIPE is fine
            let _ = stdin.write_all(&data);
            drop(stdin);
        }))
    } else if spec.stdin_kind == StdinKind::Trickle {
        let mut stdin = child.stdin.take().unwrap();
        let data = spec.stdin.clone();
        let cuts = spec.stdin_cuts.clone();
        let pid = child.id();
        Some(std::thread::spawn(move || {
            let mut from = 0usize;
            let mut patience_ms: u128 = 100;
            for cut in cuts.into_iter().chain(std::iter::once(data.len())) {
                let cut = cut.min(data.len());
                if cut <= from {
                    continue;
                }
                if stdin.write_all(&data[from..cut]).is_err() {
                    return;
                }
                from = cut;
                if from == data.len() {
                    break;
                }
                // the next piece follows once the program has taken this one
                // out of the pipe (so the two arrive in different reads) -- or
                // after 100 ms: it may be busy, finished, or not reading
                let started = std::time::Instant::now();
                let mut taken = false;
                while started.elapsed().as_millis() < patience_ms {
                    if pipe_is_empty(&stdin) || !std::path::Path::new(&format!("/proc/{}", pid)).exists() {
                        taken = true;
                        break;
                    }
                    std::thread::sleep(std::time::Duration::from_micros(300));
                }
                if !taken {
                    // evidently not a reader: the remaining pauses are short
                    patience_ms = 5;
                }
            }
            drop(stdin);
        }))
    } else {
        None
    };
    // a slow consumer: nothing is read from the pipe for a while (the child
    // blocks once the pipe is full), then everything is read to the end
    let stalled_reader = if spec.stalled_stdout_reader_ms > 0 {
        let mut out = child.stdout.take().unwrap();
        let ms = spec.stalled_stdout_reader_ms;
        let path = out_path.clone();
        Some(std::thread::spawn(move || {
            std::thread::sleep(std::time::Duration::from_millis(ms));
            let mut v = Vec::new();
            let _ = out.read_to_end(&mut v);
            let _ = fs::write(&path, &v);
        }))
    } else {
        None
    };
    // bounded wait: a child that runs for CHILD_TIMEOUT_S is killed and
    // reported as timed out (programs here finish in milliseconds)
    let started = std::time::Instant::now();
    let mut timed_out = false;
    let status = loop {
        match child.try_wait().map_err(|e| e.to_string())? {
            Some(st) => break st,
            None => {
                if started.elapsed().as_secs() >= CHILD_TIMEOUT_S {
                    let _ = child.kill();
                    timed_out = true;
                    break child.wait().map_err(|e| e.to_string())?;
                }
                std::thread::sleep(std::time::Duration::from_micros(
                    if started.elapsed().as_millis() < 20 { 200 } else { 5000 },
                ));
            }
        }
    };
    if let Some(p) = &clock_report {
        account_clock(p, &spec.env);
    }
    if let Some(f) = feeder {
        let _ = f.join();
    }
    if let Some(r) = stalled_reader {
        let _ = r.join();
    }
    let read_all = |p: &Path| -> Vec<u8> {
        let mut v = Vec::new();
        if let Ok(mut f) = File::open(p) {
            let _ = f.read_to_end(&mut v);
        }
        v
    };
    use std::os::unix::process::ExitStatusExt;
    let (stdout, stderr, combined) = if spec.shared_out_err {
        let c = read_all(&out_path);
        (Vec::new(), Vec::new(), Some(c))
    } else {
        (read_all(&out_path), read_all(&err_path), None)
    };
    Ok(ProcResult {
        stdout,
        stderr,
        combined,
        code: status.code(),
        signal: status.signal(),
        timed_out,
    })
}

/// The system python3 (only used to give a child a pseudo-terminal; no
/// third-party modules). None if there is none: pty worlds are then skipped.
pub fn python3() -> Option<PathBuf> {
    for cand in ["/usr/bin/python3", "/usr/local/bin/python3", "/bin/python3"] {
        if Path::new(cand).exists() {
            return Some(PathBuf::from(cand));
        }
    }
    None
}

/// Runs the binary with standard input and/or standard output on a
/// pseudo-terminal (through tools/ptyrun.py); stderr goes to a file.
pub fn run_pty(
    spec: &ProcSpec,
    scratch: &Scratch,
    tag: &str,
    stdin_tty: bool,
    stdout_tty: bool,
    stderr_tty: bool,
) -> Result<Option<ProcResult>, String> {
    crate::driver::heartbeat();
    let py = match python3() {
        Some(p) => p,
        None => return Ok(None),
    };
    let helper = crate::driver::verif_dir().join("tools").join("ptyrun.py");
    let input = scratch
        .file(&format!("{}.stdin", tag), &spec.stdin)
        .map_err(|e| e.to_string())?;
    let out_path = scratch.path.join(format!("{}.out", tag));
    let err_path = scratch.path.join(format!("{}.err", tag));
    let st_path = scratch.path.join(format!("{}.status", tag));
    let mut cmd = Command::new(py);
    cmd.arg(&helper)
        .arg(if stdin_tty { "1" } else { "0" })
        .arg(if stdout_tty { "1" } else { "0" })
        .arg(if stderr_tty { "1" } else { "0" })
        .arg(&input)
        .arg(&out_path)
        .arg(&err_path)
        .arg(&st_path)
        .arg(&spec.cwd)
        .arg("--")
        .arg(rrss_bin())
        .args(&spec.args)
        .env_clear()
        .stdin(Stdio::null())
        .stdout(Stdio::null())
        .stderr(Stdio::piped());
    for (k, v) in &spec.env {
        cmd.env(k, v);
    }
    let child = {
        let _guard = SPAWN_LOCK.lock().unwrap_or_else(|e| e.into_inner());
        cmd.spawn().map_err(|e| format!("cannot spawn python3: {}", e))?
    };
    let out = child.wait_with_output().map_err(|e| e.to_string())?;
    if !out.status.success() {
        return Err(format!(
            "ptyrun.py failed: {}",
            String::from_utf8_lossy(&out.stderr).trim()
        ));
    }
    let status = fs::read_to_string(&st_path).unwrap_or_default();
    let status = status.trim();
    let timed_out = status == "timeout";
    let code: Option<i32> = status.parse::<i32>().ok();
    let (code, signal) = match code {
        Some(c) if c < 0 => (None, Some(-c)),
        Some(c) => (Some(c), None),
        None => (None, None),
    };
    Ok(Some(ProcResult {
        stdout: fs::read(&out_path).unwrap_or_default(),
        stderr: fs::read(&err_path).unwrap_or_default(),
        combined: None,
        code,
        signal,
        timed_out,
    }))
}
