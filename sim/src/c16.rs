//! C16 — visitors see every node exactly once, in order, and stop at the
//! first error. Callback world: recording visitors implemented outside the
//! crate against the public traits, with a failure injected at every callback
//! index; history check against a reference traversal of the public fields.

use std::sync::Arc;

use rrss::analysis::visit::{self, Combine, ExprVisitorRunner, Visit, VisitExpr, VisitProgram};
use rrss::frontend::ast::*;
use rrss::frontend::source_range::{SourceLocation, SourceRange};

use crate::c08::guarded;
use crate::driver::*;
use crate::json::J;
use crate::rng::{hash_bytes, hash_combine};
use crate::tape::Tape;

pub struct C16;

// ------------------------------------------------------------ tree generator

struct TreeGen<'t, 's> {
    t: &'t mut Tape,
    stats: &'s mut Stats,
    serial: u32,
    nodes: u32,
    scramble_mul: u32,
    scramble_xor: u32,
    /// function bodies generated so far (a tree may hold the same
    /// Arc<FunctionData> in two Function statements)
    bodies: Vec<Arc<FunctionData>>,
}

const BIN_OPS: [BinaryOperator; 13] = [
    BinaryOperator::Plus,
    BinaryOperator::Minus,
    BinaryOperator::Multiply,
    BinaryOperator::Divide,
    BinaryOperator::And,
    BinaryOperator::Or,
    BinaryOperator::Nor,
    BinaryOperator::Eq,
    BinaryOperator::NotEq,
    BinaryOperator::Greater,
    BinaryOperator::GreaterEq,
    BinaryOperator::Less,
    BinaryOperator::LessEq,
];

const NODE_BUDGET: u32 = 110;

impl<'t, 's> TreeGen<'t, 's> {
    /// Unique line per node; with a scrambler the lines are in an arbitrary
    /// order relative to the fields (a parser may put a value before its
    /// destination in the source, as `put .. into ..` does).
    fn line(&mut self) -> u32 {
        self.serial += 1;
        ((self.serial.wrapping_mul(self.scramble_mul)) ^ self.scramble_xor) & 0xF_FFFF
    }
    fn range(&mut self) -> SourceRange {
        let l = self.line();
        SourceRange::from(((l, 0), (l, 1)))
    }
    fn loc(&mut self) -> SourceLocation {
        let l = self.line();
        SourceLocation::new(l, 0)
    }
    fn small(&self) -> bool {
        self.nodes > NODE_BUDGET
    }

    fn var_name(&mut self) -> WithRange<VariableName> {
        self.nodes += 1;
        let r = self.range();
        let n = self.serial;
        let v = match self.t.draw(3) {
            0 => VariableName::Simple(SimpleIdentifier(format!("s{}", n))),
            1 => VariableName::Common(CommonIdentifier("my".into(), format!("c{}", n))),
            _ => VariableName::Proper(ProperIdentifier(vec![format!("P{}", n), "Q".into()])),
        };
        WithRange(v, r)
    }

    fn identifier(&mut self) -> WithRange<Identifier> {
        if self.t.chance(1, 4) {
            self.nodes += 1;
            let r = self.range();
            WithRange(Identifier::Pronoun, r)
        } else {
            let WithRange(v, r) = self.var_name();
            WithRange(Identifier::VariableName(v), r)
        }
    }

    fn literal(&mut self) -> WithRange<LiteralExpression> {
        self.nodes += 1;
        let r = self.range();
        let n = self.serial;
        let l = match self.t.draw(5) {
            0 => LiteralExpression::Number(n as f64),
            1 => LiteralExpression::String(format!("str{}", n)),
            2 => LiteralExpression::Boolean(n % 2 == 0),
            3 => LiteralExpression::Null,
            _ => LiteralExpression::Mysterious,
        };
        WithRange(l, r)
    }

    fn primary(&mut self, depth: u32) -> PrimaryExpression {
        let deep = depth < 4 && !self.small();
        let w = [
            4,
            4,
            if deep { 3 } else { 0 },
            if deep { 2 } else { 0 },
            if deep { 1 } else { 0 },
        ];
        match self.t.weighted(&w) {
            0 => PrimaryExpression::Literal(self.literal()),
            1 => PrimaryExpression::Identifier(self.identifier()),
            2 => {
                if depth > 0 {
                    self.stats.inc("probe.nested_subscript");
                }
                PrimaryExpression::ArraySubscript(self.subscript(depth + 1))
            }
            3 => PrimaryExpression::FunctionCall(self.call(depth + 1)),
            _ => {
                self.stats.inc("probe.array_pop_expression");
                PrimaryExpression::ArrayPop(Box::new(ArrayPopExpr {
                    array: self.primary(depth + 1),
                }))
            }
        }
    }

    fn subscript(&mut self, depth: u32) -> ArraySubscript {
        ArraySubscript {
            array: Box::new(self.primary(depth)),
            subscript: Box::new(self.primary(depth)),
        }
    }

    fn call(&mut self, depth: u32) -> FunctionCall {
        let name = self.var_name();
        let n = 1 + self.t.weighted(&[4, 3, 2, 1]);
        let args = (0..n).map(|_| self.expr(depth)).collect();
        FunctionCall { name, args }
    }

    fn expr(&mut self, depth: u32) -> Expression {
        let deep = depth < 4 && !self.small();
        let w = [5, if deep { 3 } else { 0 }, if deep { 2 } else { 0 }];
        match self.t.weighted(&w) {
            0 => Expression::PrimaryExpression(self.primary(depth)),
            1 => {
                let operator = BIN_OPS[self.t.draw(13) as usize];
                self.nodes += 1;
                let lhs = Box::new(self.expr(depth + 1));
                let rhs = Box::new(self.list(depth + 1));
                Expression::BinaryExpression(BinaryExpression { operator, lhs, rhs })
            }
            _ => {
                self.nodes += 1;
                let operator = if self.t.chance(1, 2) {
                    UnaryOperator::Not
                } else {
                    UnaryOperator::Minus
                };
                Expression::UnaryExpression(UnaryExpression {
                    operator,
                    operand: Box::new(self.expr(depth + 1)),
                })
            }
        }
    }

    fn list(&mut self, depth: u32) -> ExpressionList {
        let first = self.expr(depth);
        let n = if self.small() { 0 } else { self.t.weighted(&[5, 2, 2, 1]) };
        if n > 0 {
            self.stats.inc("probe.list_tail_nonempty");
        }
        let rest = (0..n).map(|_| self.expr(depth)).collect();
        ExpressionList { first, rest }
    }

    fn lhs(&mut self) -> AssignmentLHS {
        if self.t.chance(1, 3) {
            AssignmentLHS::ArraySubscript(self.subscript(2))
        } else {
            AssignmentLHS::Identifier(self.identifier())
        }
    }

    fn poetic_literal(&mut self) -> PoeticNumberLiteral {
        self.stats.inc("probe.poetic_literal");
        let n = 1 + self.t.draw(5);
        let mut elems = Vec::new();
        for _ in 0..n {
            self.serial += 1;
            self.nodes += 1;
            elems.push(match self.t.draw(4) {
                0 | 1 => PoeticNumberLiteralElem::Word(format!("w{}", self.serial)),
                2 => PoeticNumberLiteralElem::WordSuffix(format!("'s{}", self.serial)),
                _ => PoeticNumberLiteralElem::Dot,
            });
        }
        PoeticNumberLiteral { elems }
    }

    fn block(&mut self, depth: u32) -> Block {
        let at = self.t.pos();
        let n = if self.small() {
            self.t.draw(2)
        } else {
            self.t.weighted(&[1, 3, 3, 2, 1]) as u32
        };
        let stmts: Vec<Statement> = (0..n)
            .map(|_| {
                let start = self.t.pos();
                let s = self.stmt(depth);
                self.t.element(start, at);
                s
            })
            .collect();
        if stmts.is_empty() {
            self.stats.inc("probe.empty_block");
        }
        let loc = self.loc();
        Block::new(loc, stmts)
    }

    fn stmt(&mut self, depth: u32) -> Statement {
        let deep = depth < 3 && !self.small();
        let nest = if deep { 2 } else { 0 };
        let w = [
            3, 2, 1, nest, nest, nest, 1, 1, 2, 2, 3, 2, 1, 1, 2, 2, 1, nest, 2,
        ];
        match self.t.weighted(&w) {
            0 => {
                let dest = self.lhs();
                let operator = if self.t.chance(1, 3) {
                    self.stats.inc("probe.compound_assignment");
                    self.nodes += 1;
                    Some(BIN_OPS[self.t.draw(4) as usize])
                } else {
                    None
                };
                let value = AssignmentRHS::ExpressionList(self.list(1));
                Statement::Assignment(Assignment {
                    dest,
                    value,
                    operator,
                })
            }
            1 => {
                let dest = self.lhs();
                let rhs = if self.t.chance(1, 2) {
                    PoeticNumberAssignmentRHS::Expression(self.expr(1))
                } else {
                    PoeticNumberAssignmentRHS::PoeticNumberLiteral(self.poetic_literal())
                };
                Statement::PoeticAssignment(PoeticAssignment::Number(PoeticNumberAssignment {
                    dest,
                    rhs,
                }))
            }
            2 => Statement::PoeticAssignment(PoeticAssignment::String(PoeticStringAssignment {
                dest: self.lhs(),
                rhs: "poetic text".into(),
            })),
            3 => {
                let condition = self.expr(1);
                let then_block = self.block(depth + 1);
                let else_block = if self.t.chance(1, 2) {
                    self.stats.inc("probe.else_present");
                    Some(self.block(depth + 1))
                } else {
                    self.stats.inc("probe.else_absent");
                    None
                };
                Statement::If(If {
                    condition,
                    then_block,
                    else_block,
                })
            }
            4 => Statement::While(While {
                condition: self.expr(1),
                block: self.block(depth + 1),
            }),
            5 => Statement::Until(Until {
                condition: self.expr(1),
                block: self.block(depth + 1),
            }),
            6 => Statement::Inc(Inc {
                dest: self.identifier(),
                amount: 1 + self.t.draw(3) as isize,
            }),
            7 => Statement::Dec(Dec {
                dest: self.identifier(),
                amount: 1 + self.t.draw(3) as isize,
            }),
            8 => {
                let dest = if self.t.chance(1, 2) {
                    self.stats.inc("probe.input_dest_present");
                    InputDest::Some(self.lhs())
                } else {
                    self.stats.inc("probe.input_dest_absent");
                    InputDest::None(self.loc())
                };
                Statement::Input(Input { dest })
            }
            9 => Statement::Output(Output {
                value: self.expr(1),
            }),
            10 => {
                let operator = [MutationOperator::Cut, MutationOperator::Join, MutationOperator::Cast]
                    [self.t.draw(3) as usize];
                let operand = self.primary(2);
                let dest = if self.t.chance(1, 2) {
                    self.stats.inc("probe.mutation_dest_present");
                    Some(self.lhs())
                } else {
                    self.stats.inc("probe.mutation_dest_absent");
                    None
                };
                let param = if self.t.chance(1, 2) {
                    self.stats.inc("probe.mutation_param_present");
                    Some(self.expr(1))
                } else {
                    self.stats.inc("probe.mutation_param_absent");
                    None
                };
                Statement::Mutation(Mutation {
                    operator,
                    operand,
                    dest,
                    param,
                })
            }
            11 => Statement::Rounding(Rounding {
                direction: [
                    RoundingDirection::Up,
                    RoundingDirection::Down,
                    RoundingDirection::Nearest,
                ][self.t.draw(3) as usize],
                operand: self.expr(1),
            }),
            12 => Statement::Continue(Continue(self.range())),
            13 => Statement::Break(Break(self.range())),
            14 => {
                let array = self.primary(2);
                let value = match self.t.draw(3) {
                    0 => {
                        self.stats.inc("probe.push_value_absent");
                        None
                    }
                    1 => {
                        self.stats.inc("probe.push_value_list");
                        Some(ArrayPushRHS::ExpressionList(self.list(1)))
                    }
                    _ => {
                        self.stats.inc("probe.push_value_poetic");
                        Some(ArrayPushRHS::PoeticNumberLiteral(self.poetic_literal()))
                    }
                };
                Statement::ArrayPush(ArrayPush { array, value })
            }
            15 => {
                let expr = ArrayPopExpr {
                    array: self.primary(2),
                };
                let dest = if self.t.chance(1, 2) {
                    self.stats.inc("probe.pop_dest_present");
                    Some(self.lhs())
                } else {
                    self.stats.inc("probe.pop_dest_absent");
                    None
                };
                Statement::ArrayPop(ArrayPop { expr, dest })
            }
            16 => Statement::Return(Return {
                value: self.expr(1),
            }),
            17 => {
                let name = self.var_name();
                if !self.bodies.is_empty() && self.t.chance(1, 4) {
                    self.stats.inc("probe.function_body_shared_by_two_statements");
                    let i = self.t.draw(self.bodies.len() as u32) as usize;
                    return Statement::Function(Function {
                        name,
                        data: Arc::clone(&self.bodies[i]),
                    });
                }
                let n = 1 + self.t.weighted(&[3, 3, 2, 1]);
                if n >= 2 {
                    self.stats.inc("probe.function_with_several_params");
                }
                let params = (0..n).map(|_| self.var_name()).collect();
                let body = self.block(depth + 1);
                let data = Arc::new(FunctionData { params, body });
                self.bodies.push(Arc::clone(&data));
                Statement::Function(Function { name, data })
            }
            _ => Statement::FunctionCall(self.call(1)),
        }
    }

    fn program(&mut self) -> Program {
        let nblocks = 1 + self.t.weighted(&[3, 3, 1]);
        let mut code = Vec::new();
        for _ in 0..nblocks {
            let at = self.t.pos();
            let n = 1 + self.t.weighted(&[2, 3, 3, 2, 1]) as u32;
            let stmts: Vec<Statement> = (0..n)
                .map(|_| {
                    let start = self.t.pos();
                    let s = self.stmt(0);
                    self.t.element(start, at);
                    s
                })
                .collect();
            code.push(Block::NonEmpty(stmts));
        }
        if self.t.chance(1, 6) {
            let l = self.loc();
            code.push(Block::Empty(l));
        }
        Program { code }
    }
}

// ------------------------------------------------------- reference traversal

/// What the oracle expects, produced by walking the public fields. `infix_*`
/// select the documented latitude for the two infix forms.
struct RefWalk {
    out: Vec<String>,
    interior: bool,
    /// also the nodes that have children of their own (recorder D)
    full: bool,
    infix_binary: bool,
    infix_assign: bool,
}

fn range_id(r: &SourceRange) -> u32 {
    r.start().line
}

impl RefWalk {
    fn enter(&mut self, what: &str) {
        if self.interior {
            self.out.push(format!("enter:{}", what));
        }
    }
    fn enter_full(&mut self, what: &str) {
        if self.full {
            self.out.push(format!("enter:{}", what));
        }
    }
    fn program(&mut self, p: &Program) {
        for b in &p.code {
            self.block(b)
        }
    }
    fn block(&mut self, b: &Block) {
        if let Block::NonEmpty(stmts) = b {
            for s in stmts {
                self.stmt(s)
            }
        }
    }
    fn stmt(&mut self, s: &Statement) {
        match s {
            Statement::Assignment(a) => {
                self.lhs(&a.dest);
                if self.infix_assign {
                    if let Some(o) = a.operator {
                        self.out.push(format!("binop:{:?}", o));
                    }
                }
                self.enter("rhs");
                match &a.value {
                    AssignmentRHS::ExpressionList(l) => self.list(l),
                }
                if !self.infix_assign {
                    if let Some(o) = a.operator {
                        self.out.push(format!("binop:{:?}", o));
                    }
                }
            }
            Statement::PoeticAssignment(PoeticAssignment::Number(a)) => {
                self.lhs(&a.dest);
                self.enter("pnrhs");
                match &a.rhs {
                    PoeticNumberAssignmentRHS::Expression(e) => self.expr(e),
                    PoeticNumberAssignmentRHS::PoeticNumberLiteral(p) => self.poetic(p),
                }
            }
            Statement::PoeticAssignment(PoeticAssignment::String(a)) => self.lhs(&a.dest),
            Statement::If(i) => {
                self.expr(&i.condition);
                self.block(&i.then_block);
                if let Some(e) = &i.else_block {
                    self.block(e)
                }
            }
            Statement::While(w) => {
                self.expr(&w.condition);
                self.block(&w.block)
            }
            Statement::Until(u) => {
                self.expr(&u.condition);
                self.block(&u.block)
            }
            Statement::Inc(i) => self.ident(&i.dest),
            Statement::Dec(d) => self.ident(&d.dest),
            Statement::Input(i) => {
                if let InputDest::Some(d) = &i.dest {
                    self.lhs(d)
                }
            }
            Statement::Output(o) => self.expr(&o.value),
            Statement::Mutation(m) => {
                self.primary(&m.operand);
                if let Some(d) = &m.dest {
                    self.lhs(d)
                }
                if let Some(p) = &m.param {
                    self.expr(p)
                }
            }
            Statement::Rounding(r) => self.expr(&r.operand),
            Statement::Continue(_) | Statement::Break(_) => {}
            Statement::ArrayPush(a) => {
                self.primary(&a.array);
                if let Some(v) = &a.value {
                    self.enter("pushrhs");
                    match v {
                        ArrayPushRHS::ExpressionList(l) => self.list(l),
                        ArrayPushRHS::PoeticNumberLiteral(p) => self.poetic(p),
                    }
                }
            }
            Statement::ArrayPop(a) => {
                self.enter_full("arraypop");
                self.primary(&a.expr.array);
                if let Some(d) = &a.dest {
                    self.lhs(d)
                }
            }
            Statement::Return(r) => self.expr(&r.value),
            Statement::Function(f) => {
                self.var_name(&f.name.0, &f.name.1);
                for p in &f.data.params {
                    self.var_name(&p.0, &p.1);
                }
                self.block(&f.data.body);
            }
            Statement::FunctionCall(c) => self.call(c),
        }
    }
    fn lhs(&mut self, l: &AssignmentLHS) {
        self.enter("lhs");
        match l {
            AssignmentLHS::Identifier(i) => self.ident(i),
            AssignmentLHS::ArraySubscript(a) => self.subscript(a),
        }
    }
    fn ident(&mut self, i: &WithRange<Identifier>) {
        self.enter("ident");
        match &i.0 {
            Identifier::VariableName(v) => self.var_name(v, &i.1),
            Identifier::Pronoun => self.out.push(format!("pronoun@{}", range_id(&i.1))),
        }
    }
    fn var_name(&mut self, v: &VariableName, r: &SourceRange) {
        self.enter("varname");
        match v {
            VariableName::Simple(s) => self.out.push(format!("simple:{}@{}", s.0, range_id(r))),
            VariableName::Common(c) => {
                self.out.push(format!("common:{} {}@{}", c.0, c.1, range_id(r)))
            }
            VariableName::Proper(p) => {
                self.out.push(format!("proper:{}@{}", p.0.join(" "), range_id(r)))
            }
        }
    }
    fn subscript(&mut self, a: &ArraySubscript) {
        self.enter_full("subscript");
        self.primary(&a.array);
        self.primary(&a.subscript);
    }
    fn call(&mut self, c: &FunctionCall) {
        self.enter_full("call");
        self.var_name(&c.name.0, &c.name.1);
        for a in &c.args {
            self.expr(a)
        }
    }
    fn list(&mut self, l: &ExpressionList) {
        self.enter_full("list");
        self.expr(&l.first);
        for e in &l.rest {
            self.expr(e)
        }
    }
    fn poetic(&mut self, p: &PoeticNumberLiteral) {
        self.enter_full("poetic");
        for e in &p.elems {
            self.out.push(format!("poetic:{:?}", e));
        }
    }
    fn expr(&mut self, e: &Expression) {
        self.enter("expr");
        match e {
            Expression::PrimaryExpression(p) => self.primary(p),
            Expression::BinaryExpression(b) => {
                self.enter_full("binary");
                if !self.infix_binary {
                    self.out.push(format!("binop:{:?}", b.operator));
                }
                self.expr(&b.lhs);
                if self.infix_binary {
                    self.out.push(format!("binop:{:?}", b.operator));
                }
                self.list(&b.rhs);
            }
            Expression::UnaryExpression(u) => {
                self.enter_full("unary");
                self.out.push(format!("unop:{:?}", u.operator));
                self.expr(&u.operand);
            }
        }
    }
    fn primary(&mut self, p: &PrimaryExpression) {
        self.enter("primary");
        match p {
            PrimaryExpression::Literal(l) => {
                self.out.push(format!("literal:{:?}@{}", l.0, range_id(&l.1)))
            }
            PrimaryExpression::Identifier(i) => self.ident(i),
            PrimaryExpression::ArraySubscript(a) => self.subscript(a),
            PrimaryExpression::FunctionCall(c) => self.call(c),
            PrimaryExpression::ArrayPop(a) => {
                self.enter_full("arraypop");
                self.primary(&a.array)
            }
        }
    }
}

/// Expected events for the direct VisitProgram recorder (statements only).
fn ref_statements(p: &Program) -> Vec<String> {
    fn block(b: &Block, out: &mut Vec<String>) {
        if let Block::NonEmpty(stmts) = b {
            for s in stmts {
                stmt(s, out)
            }
        }
    }
    fn addr<T>(x: &T) -> usize {
        x as *const T as usize
    }
    fn stmt(s: &Statement, out: &mut Vec<String>) {
        match s {
            Statement::Assignment(a) => out.push(format!("assignment#{}", addr(a))),
            Statement::PoeticAssignment(PoeticAssignment::Number(a)) => {
                out.push(format!("poetic-number#{}", addr(a)))
            }
            Statement::PoeticAssignment(PoeticAssignment::String(a)) => {
                out.push(format!("poetic-string#{}", addr(a)))
            }
            Statement::If(i) => {
                block(&i.then_block, out);
                if let Some(e) = &i.else_block {
                    block(e, out)
                }
            }
            Statement::While(w) => block(&w.block, out),
            Statement::Until(u) => block(&u.block, out),
            Statement::Inc(x) => out.push(format!("inc#{}", addr(x))),
            Statement::Dec(x) => out.push(format!("dec#{}", addr(x))),
            Statement::Input(x) => out.push(format!("input#{}", addr(x))),
            Statement::Output(x) => out.push(format!("output#{}", addr(x))),
            Statement::Mutation(m) => out.push(format!("mutop:{:?}", m.operator)),
            Statement::Rounding(r) => out.push(format!("rounddir:{:?}", r.direction)),
            Statement::Continue(x) => out.push(format!("continue#{}", addr(x))),
            Statement::Break(x) => out.push(format!("break#{}", addr(x))),
            Statement::ArrayPush(x) => out.push(format!("push#{}", addr(x))),
            Statement::ArrayPop(x) => out.push(format!("pop#{}", addr(x))),
            Statement::Return(x) => out.push(format!("return#{}", addr(x))),
            Statement::Function(f) => block(&f.data.body, out),
            Statement::FunctionCall(x) => out.push(format!("call#{}", addr(x))),
        }
    }
    let mut out = Vec::new();
    for b in &p.code {
        block(b, &mut out);
    }
    out
}

// ------------------------------------------------------------------ recorders

#[derive(Clone, Debug, Default, PartialEq)]
pub struct Trace(Vec<u32>);

impl Combine for Trace {
    fn combine(mut self, other: Self) -> Self {
        self.0.extend(other.0);
        self
    }
}

#[derive(Clone, Debug, PartialEq)]
pub struct Injected {
    k: usize,
    nonce: u64,
}

struct Log {
    events: Vec<String>,
    fail_at: Option<usize>,
    nonce: u64,
    /// callbacks delivered after the injected failure
    after_failure: usize,
    failed: bool,
    failed_epoch: u32,
    /// number of events delivered by the first of two walks
    first_walk_len: Option<usize>,
}

thread_local! {
    /// 1 during a first walk, 2 during a second walk with the same runner
    static WALK_EPOCH: std::cell::Cell<u32> = std::cell::Cell::new(1);
}

impl From<u32> for Trace {
    fn from(k: u32) -> Self {
        Trace(vec![k])
    }
}

/// Like Trace, but the default is a visible marker: the folded value shows
/// where a fold started from the default.
#[derive(Clone, Debug, PartialEq)]
pub struct Marked(Vec<u32>);

const MARK: u32 = u32::MAX;

impl Default for Marked {
    fn default() -> Self {
        Marked(vec![MARK])
    }
}

impl From<u32> for Marked {
    fn from(k: u32) -> Self {
        Marked(vec![k])
    }
}

impl Combine for Marked {
    fn combine(mut self, other: Self) -> Self {
        self.0.extend(other.0);
        self
    }
}

impl Log {
    fn new(fail_at: Option<usize>, nonce: u64) -> Self {
        Log {
            events: Vec::new(),
            fail_at,
            nonce,
            after_failure: 0,
            failed: false,
            failed_epoch: 0,
            first_walk_len: None,
        }
    }
    fn cb<T: From<u32>>(&mut self, ev: String) -> Result<T, Injected> {
        let epoch = WALK_EPOCH.with(|e| e.get());
        if self.failed && self.failed_epoch == epoch {
            self.after_failure += 1;
        }
        if epoch == 2 && self.first_walk_len.is_none() {
            self.first_walk_len = Some(self.events.len());
        }
        let k = self.events.len();
        self.events.push(ev);
        if self.fail_at == Some(k) {
            self.failed = true;
            self.failed_epoch = epoch;
            Err(Injected {
                k,
                nonce: self.nonce,
            })
        } else {
            Ok(T::from(k as u32))
        }
    }
}

/// Recorder A: only leaf callbacks; every traversal method is the default.
struct LeafRecorder {
    log: Log,
}

impl Visit for LeafRecorder {
    type Output = Trace;
    type Error = Injected;
}

macro_rules! leaf_callbacks {
    () => {
        fn visit_poetic_number_literal_elem(
            &mut self,
            p: &PoeticNumberLiteralElem,
        ) -> visit::Result<Self> {
            self.log.cb(format!("poetic:{:?}", p))
        }
        fn visit_binary_operator(&mut self, o: BinaryOperator) -> visit::Result<Self> {
            self.log.cb(format!("binop:{:?}", o))
        }
        fn visit_unary_operator(&mut self, o: UnaryOperator) -> visit::Result<Self> {
            self.log.cb(format!("unop:{:?}", o))
        }
        fn visit_literal_expression(
            &mut self,
            e: &WithRange<LiteralExpression>,
        ) -> visit::Result<Self> {
            self.log.cb(format!("literal:{:?}@{}", e.0, range_id(&e.1)))
        }
        fn visit_pronoun(&mut self, range: SourceRange) -> visit::Result<Self> {
            self.log.cb(format!("pronoun@{}", range_id(&range)))
        }
        fn visit_simple_identifier(
            &mut self,
            n: WithRange<&SimpleIdentifier>,
        ) -> visit::Result<Self> {
            self.log.cb(format!("simple:{}@{}", (n.0).0, range_id(&n.1)))
        }
        fn visit_common_identifier(
            &mut self,
            n: WithRange<&CommonIdentifier>,
        ) -> visit::Result<Self> {
            self.log
                .cb(format!("common:{} {}@{}", (n.0).0, (n.0).1, range_id(&n.1)))
        }
        fn visit_proper_identifier(
            &mut self,
            n: WithRange<&ProperIdentifier>,
        ) -> visit::Result<Self> {
            self.log
                .cb(format!("proper:{}@{}", (n.0).0.join(" "), range_id(&n.1)))
        }
    };
}

impl VisitExpr for LeafRecorder {
    leaf_callbacks!();
}

macro_rules! dispatch_callbacks {
    () => {
    fn visit_assignment_lhs(&mut self, a: &AssignmentLHS) -> visit::Result<Self> {
        let here: Trace = self.log.cb("enter:lhs".into())?;
        Ok(here.combine(match a {
            AssignmentLHS::Identifier(i) => self.visit_identifier(i),
            AssignmentLHS::ArraySubscript(a) => self.visit_array_subscript(a),
        }?))
    }
    fn visit_assignment_rhs(&mut self, a: &AssignmentRHS) -> visit::Result<Self> {
        let here: Trace = self.log.cb("enter:rhs".into())?;
        Ok(here.combine(match a {
            AssignmentRHS::ExpressionList(e) => self.visit_expression_list(e),
        }?))
    }
    fn visit_poetic_number_assignment_rhs(
        &mut self,
        p: &PoeticNumberAssignmentRHS,
    ) -> visit::Result<Self> {
        let here: Trace = self.log.cb("enter:pnrhs".into())?;
        Ok(here.combine(match p {
            PoeticNumberAssignmentRHS::Expression(e) => self.visit_expression(e),
            PoeticNumberAssignmentRHS::PoeticNumberLiteral(p) => {
                self.visit_poetic_number_literal(p)
            }
        }?))
    }
    fn visit_array_push_rhs(&mut self, a: &ArrayPushRHS) -> visit::Result<Self> {
        let here: Trace = self.log.cb("enter:pushrhs".into())?;
        Ok(here.combine(match a {
            ArrayPushRHS::ExpressionList(e) => self.visit_expression_list(e),
            ArrayPushRHS::PoeticNumberLiteral(p) => self.visit_poetic_number_literal(p),
        }?))
    }
    fn visit_expression(&mut self, e: &Expression) -> visit::Result<Self> {
        let here: Trace = self.log.cb("enter:expr".into())?;
        Ok(here.combine(match e {
            Expression::PrimaryExpression(e) => self.visit_primary_expression(e),
            Expression::BinaryExpression(e) => self.visit_binary_expression(e),
            Expression::UnaryExpression(e) => self.visit_unary_expression(e),
        }?))
    }
    fn visit_primary_expression(&mut self, e: &PrimaryExpression) -> visit::Result<Self> {
        let here: Trace = self.log.cb("enter:primary".into())?;
        Ok(here.combine(match e {
            PrimaryExpression::Literal(e) => self.visit_literal_expression(e),
            PrimaryExpression::Identifier(i) => self.visit_identifier(i),
            PrimaryExpression::ArraySubscript(a) => self.visit_array_subscript(a),
            PrimaryExpression::FunctionCall(f) => self.visit_function_call(f),
            PrimaryExpression::ArrayPop(a) => self.visit_array_pop_expr(a),
        }?))
    }
    fn visit_identifier(&mut self, i: &WithRange<Identifier>) -> visit::Result<Self> {
        let here: Trace = self.log.cb("enter:ident".into())?;
        Ok(here.combine(match &i.0 {
            Identifier::VariableName(n) => self.visit_variable_name(WithRange(n, i.1.clone())),
            Identifier::Pronoun => self.visit_pronoun(i.1.clone()),
        }?))
    }
    fn visit_variable_name(&mut self, n: WithRange<&VariableName>) -> visit::Result<Self> {
        let here: Trace = self.log.cb("enter:varname".into())?;
        Ok(here.combine(match n.0 {
            VariableName::Simple(x) => self.visit_simple_identifier(WithRange(x, n.1.clone())),
            VariableName::Common(x) => self.visit_common_identifier(WithRange(x, n.1.clone())),
            VariableName::Proper(x) => self.visit_proper_identifier(WithRange(x, n.1.clone())),
        }?))
    }
    };
}

/// Recorder E: leaf callbacks only, output with a visible default marker;
/// used for two consecutive walks with the same runner instance.
struct MarkedRecorder {
    log: Log,
}

impl Visit for MarkedRecorder {
    type Output = Marked;
    type Error = Injected;
}

impl VisitExpr for MarkedRecorder {
    leaf_callbacks!();
}

/// The shape of a fold: which results were combined with which, in which
/// grouping. The default is the identity (it leaves no trace here; where
/// defaults enter is checked with `Marked`).
#[derive(Clone, Debug, PartialEq, Default)]
pub enum Shape {
    #[default]
    Empty,
    Leaf(u32),
    Node(Box<Shape>, Box<Shape>),
}

impl From<u32> for Shape {
    fn from(k: u32) -> Self {
        Shape::Leaf(k)
    }
}

impl Combine for Shape {
    fn combine(self, other: Self) -> Self {
        match (self, other) {
            (Shape::Empty, x) | (x, Shape::Empty) => x,
            (a, b) => Shape::Node(Box::new(a), Box::new(b)),
        }
    }
}

impl Shape {
    fn render(&self) -> String {
        match self {
            Shape::Empty => "()".into(),
            Shape::Leaf(k) => k.to_string(),
            Shape::Node(a, b) => format!("({} {})", a.render(), b.render()),
        }
    }
    /// left fold of the non-empty children
    fn fold(children: Vec<Shape>) -> Shape {
        children
            .into_iter()
            .fold(Shape::Empty, |acc, c| acc.combine(c))
    }
}

/// Recorder F: leaf callbacks only, output records the shape of the fold.
struct ShapeRecorder {
    log: Log,
}

impl Visit for ShapeRecorder {
    type Output = Shape;
    type Error = Injected;
}

impl VisitExpr for ShapeRecorder {
    leaf_callbacks!();
}

/// The fold the property describes: every node folds the results of its
/// children left to right; leaves are numbered in visit order.
struct RefShape {
    next: u32,
    infix_binary: bool,
    infix_assign: bool,
}

impl RefShape {
    fn leaf(&mut self) -> Shape {
        let k = self.next;
        self.next += 1;
        Shape::Leaf(k)
    }
    fn program(&mut self, p: &Program) -> Shape {
        let c = p.code.iter().map(|b| self.block(b)).collect();
        Shape::fold(c)
    }
    fn block(&mut self, b: &Block) -> Shape {
        match b {
            Block::Empty(_) => Shape::Empty,
            Block::NonEmpty(stmts) => {
                let c = stmts.iter().map(|s| self.stmt(s)).collect();
                Shape::fold(c)
            }
        }
    }
    fn stmt(&mut self, s: &Statement) -> Shape {
        match s {
            Statement::Assignment(a) => {
                let mut c = vec![self.lhs(&a.dest)];
                if self.infix_assign && a.operator.is_some() {
                    c.push(self.leaf());
                }
                match &a.value {
                    AssignmentRHS::ExpressionList(l) => c.push(self.list(l)),
                }
                if !self.infix_assign && a.operator.is_some() {
                    c.push(self.leaf());
                }
                Shape::fold(c)
            }
            Statement::PoeticAssignment(PoeticAssignment::Number(a)) => {
                let l = self.lhs(&a.dest);
                let r = match &a.rhs {
                    PoeticNumberAssignmentRHS::Expression(e) => self.expr(e),
                    PoeticNumberAssignmentRHS::PoeticNumberLiteral(p) => self.poetic(p),
                };
                Shape::fold(vec![l, r])
            }
            Statement::PoeticAssignment(PoeticAssignment::String(a)) => self.lhs(&a.dest),
            Statement::If(i) => {
                let c = self.expr(&i.condition);
                let t = self.block(&i.then_block);
                let e = i.else_block.as_ref().map_or(Shape::Empty, |b| self.block(b));
                Shape::fold(vec![c, t, e])
            }
            Statement::While(w) => {
                let c = self.expr(&w.condition);
                let b = self.block(&w.block);
                Shape::fold(vec![c, b])
            }
            Statement::Until(u) => {
                let c = self.expr(&u.condition);
                let b = self.block(&u.block);
                Shape::fold(vec![c, b])
            }
            Statement::Inc(i) => self.ident(&i.dest),
            Statement::Dec(d) => self.ident(&d.dest),
            Statement::Input(i) => match &i.dest {
                InputDest::Some(d) => self.lhs(d),
                InputDest::None(_) => Shape::Empty,
            },
            Statement::Output(o) => self.expr(&o.value),
            Statement::Mutation(m) => {
                let o = self.primary(&m.operand);
                let d = m.dest.as_ref().map_or(Shape::Empty, |d| self.lhs(d));
                let p = m.param.as_ref().map_or(Shape::Empty, |p| self.expr(p));
                Shape::fold(vec![o, d, p])
            }
            Statement::Rounding(r) => self.expr(&r.operand),
            Statement::Continue(_) | Statement::Break(_) => Shape::Empty,
            Statement::ArrayPush(a) => {
                let arr = self.primary(&a.array);
                let v = match &a.value {
                    None => Shape::Empty,
                    Some(ArrayPushRHS::ExpressionList(l)) => self.list(l),
                    Some(ArrayPushRHS::PoeticNumberLiteral(p)) => self.poetic(p),
                };
                Shape::fold(vec![arr, v])
            }
            Statement::ArrayPop(a) => {
                let e = self.primary(&a.expr.array);
                let d = a.dest.as_ref().map_or(Shape::Empty, |d| self.lhs(d));
                Shape::fold(vec![e, d])
            }
            Statement::Return(r) => self.expr(&r.value),
            Statement::Function(f) => {
                let name = self.leaf();
                let params: Vec<Shape> = f.data.params.iter().map(|_| self.leaf()).collect();
                let params = Shape::fold(params);
                let body = self.block(&f.data.body);
                let data = Shape::fold(vec![params, body]);
                Shape::fold(vec![name, data])
            }
            Statement::FunctionCall(c) => self.call(c),
        }
    }
    fn lhs(&mut self, l: &AssignmentLHS) -> Shape {
        match l {
            AssignmentLHS::Identifier(i) => self.ident(i),
            AssignmentLHS::ArraySubscript(a) => self.subscript(a),
        }
    }
    fn ident(&mut self, _: &WithRange<Identifier>) -> Shape {
        self.leaf()
    }
    fn subscript(&mut self, a: &ArraySubscript) -> Shape {
        let x = self.primary(&a.array);
        let y = self.primary(&a.subscript);
        Shape::fold(vec![x, y])
    }
    fn call(&mut self, c: &FunctionCall) -> Shape {
        let mut ch = vec![self.leaf()];
        for a in &c.args {
            ch.push(self.expr(a));
        }
        Shape::fold(ch)
    }
    fn list(&mut self, l: &ExpressionList) -> Shape {
        let mut ch = vec![self.expr(&l.first)];
        for e in &l.rest {
            ch.push(self.expr(e));
        }
        Shape::fold(ch)
    }
    fn poetic(&mut self, p: &PoeticNumberLiteral) -> Shape {
        let ch = p.elems.iter().map(|_| self.leaf()).collect();
        Shape::fold(ch)
    }
    fn expr(&mut self, e: &Expression) -> Shape {
        match e {
            Expression::PrimaryExpression(p) => self.primary(p),
            Expression::BinaryExpression(b) => {
                if self.infix_binary {
                    let l = self.expr(&b.lhs);
                    let o = self.leaf();
                    let r = self.list(&b.rhs);
                    Shape::fold(vec![l, o, r])
                } else {
                    let o = self.leaf();
                    let l = self.expr(&b.lhs);
                    let r = self.list(&b.rhs);
                    Shape::fold(vec![o, l, r])
                }
            }
            Expression::UnaryExpression(u) => {
                let o = self.leaf();
                let x = self.expr(&u.operand);
                Shape::fold(vec![o, x])
            }
        }
    }
    fn primary(&mut self, p: &PrimaryExpression) -> Shape {
        match p {
            PrimaryExpression::Literal(_) => self.leaf(),
            PrimaryExpression::Identifier(i) => self.ident(i),
            PrimaryExpression::ArraySubscript(a) => self.subscript(a),
            PrimaryExpression::FunctionCall(c) => self.call(c),
            PrimaryExpression::ArrayPop(a) => self.primary(&a.array),
        }
    }
}

/// Recorder B: leaf callbacks plus the pure dispatch methods, which log
/// "entered node" (and may fail there) and then repeat the one-line match.
struct InteriorRecorder {
    log: Log,
}

impl Visit for InteriorRecorder {
    type Output = Trace;
    type Error = Injected;
}

impl VisitExpr for InteriorRecorder {
    leaf_callbacks!();

    dispatch_callbacks!();
}

/// Recorder D: overrides EVERY VisitExpr method (logging "entered node",
/// possibly failing there, then doing what the default does). With it the
/// code under test is the runner: its statement-level traversal and its
/// forwarding of every method to the wrapped visitor - an override that the
/// runner bypasses shows up as a missing "enter" event.
struct FullRecorder {
    log: Log,
}

impl Visit for FullRecorder {
    type Output = Trace;
    type Error = Injected;
}

impl VisitExpr for FullRecorder {
    leaf_callbacks!();
    dispatch_callbacks!();

    fn visit_poetic_number_literal(&mut self, p: &PoeticNumberLiteral) -> visit::Result<Self> {
        let mut acc: Trace = self.log.cb("enter:poetic".into())?;
        for e in &p.elems {
            acc = acc.combine(self.visit_poetic_number_literal_elem(e)?);
        }
        Ok(acc)
    }
    fn visit_array_pop_expr(&mut self, a: &ArrayPopExpr) -> visit::Result<Self> {
        let here: Trace = self.log.cb("enter:arraypop".into())?;
        Ok(here.combine(self.visit_primary_expression(&a.array)?))
    }
    fn visit_expression_list(&mut self, e: &ExpressionList) -> visit::Result<Self> {
        let mut acc: Trace = self.log.cb("enter:list".into())?;
        acc = acc.combine(self.visit_expression(&e.first)?);
        for x in &e.rest {
            acc = acc.combine(self.visit_expression(x)?);
        }
        Ok(acc)
    }
    fn visit_binary_expression(&mut self, e: &BinaryExpression) -> visit::Result<Self> {
        let here: Trace = self.log.cb("enter:binary".into())?;
        Ok(here
            .combine(self.visit_expression(&e.lhs)?)
            .combine(self.visit_binary_operator(e.operator)?)
            .combine(self.visit_expression_list(&e.rhs)?))
    }
    fn visit_unary_expression(&mut self, e: &UnaryExpression) -> visit::Result<Self> {
        let here: Trace = self.log.cb("enter:unary".into())?;
        Ok(here
            .combine(self.visit_unary_operator(e.operator)?)
            .combine(self.visit_expression(&e.operand)?))
    }
    fn visit_array_subscript(&mut self, a: &ArraySubscript) -> visit::Result<Self> {
        let here: Trace = self.log.cb("enter:subscript".into())?;
        Ok(here
            .combine(self.visit_primary_expression(&a.array)?)
            .combine(self.visit_primary_expression(&a.subscript)?))
    }
    fn visit_function_call(&mut self, f: &FunctionCall) -> visit::Result<Self> {
        let mut acc: Trace = self.log.cb("enter:call".into())?;
        acc = acc.combine(self.visit_variable_name(f.name.as_ref())?);
        for a in &f.args {
            acc = acc.combine(self.visit_expression(a)?);
        }
        Ok(acc)
    }
}

/// Recorder C: implements VisitProgram directly; leaf statements are logged,
/// every traversal method of VisitProgram is the default.
struct StatementRecorder {
    log: Log,
}

impl Visit for StatementRecorder {
    type Output = Trace;
    type Error = Injected;
}

fn addr<T>(x: &T) -> usize {
    x as *const T as usize
}

impl VisitProgram for StatementRecorder {
    fn visit_assignment(&mut self, a: &Assignment) -> visit::Result<Self> {
        self.log.cb(format!("assignment#{}", addr(a)))
    }
    fn visit_poetic_number_assignment(&mut self, a: &PoeticNumberAssignment) -> visit::Result<Self> {
        self.log.cb(format!("poetic-number#{}", addr(a)))
    }
    fn visit_poetic_string_assignment(&mut self, a: &PoeticStringAssignment) -> visit::Result<Self> {
        self.log.cb(format!("poetic-string#{}", addr(a)))
    }
    fn visit_inc(&mut self, i: &Inc) -> visit::Result<Self> {
        self.log.cb(format!("inc#{}", addr(i)))
    }
    fn visit_dec(&mut self, d: &Dec) -> visit::Result<Self> {
        self.log.cb(format!("dec#{}", addr(d)))
    }
    fn visit_input(&mut self, i: &Input) -> visit::Result<Self> {
        self.log.cb(format!("input#{}", addr(i)))
    }
    fn visit_output(&mut self, o: &Output) -> visit::Result<Self> {
        self.log.cb(format!("output#{}", addr(o)))
    }
    fn visit_continue(&mut self, c: &Continue) -> visit::Result<Self> {
        self.log.cb(format!("continue#{}", addr(c)))
    }
    fn visit_break(&mut self, b: &Break) -> visit::Result<Self> {
        self.log.cb(format!("break#{}", addr(b)))
    }
    fn visit_array_push(&mut self, a: &ArrayPush) -> visit::Result<Self> {
        self.log.cb(format!("push#{}", addr(a)))
    }
    fn visit_array_pop(&mut self, a: &ArrayPop) -> visit::Result<Self> {
        self.log.cb(format!("pop#{}", addr(a)))
    }
    fn visit_return(&mut self, r: &Return) -> visit::Result<Self> {
        self.log.cb(format!("return#{}", addr(r)))
    }
    fn visit_function_call_statement(&mut self, f: &FunctionCall) -> visit::Result<Self> {
        self.log.cb(format!("call#{}", addr(f)))
    }
    fn visit_mutation_operator(&mut self, o: MutationOperator) -> visit::Result<Self> {
        self.log.cb(format!("mutop:{:?}", o))
    }
    fn visit_rounding_direction(&mut self, r: RoundingDirection) -> visit::Result<Self> {
        self.log.cb(format!("rounddir:{:?}", r))
    }
}

// --------------------------------------------------------------------- oracle

#[derive(Clone, Copy, Debug, PartialEq, Eq)]
enum Recorder {
    Leaf,
    Interior,
    Statements,
    Full,
}

struct Walk {
    events: Vec<String>,
    after_failure: usize,
    result: Result<Result<Trace, Injected>, String>,
}

fn walk(rec: Recorder, program: &Program, fail_at: Option<usize>, nonce: u64) -> Walk {
    crate::driver::heartbeat();
    match rec {
        Recorder::Leaf => {
            let mut runner = ExprVisitorRunner::with_inner(LeafRecorder {
                log: Log::new(fail_at, nonce),
            });
            let result = guarded(|| runner.visit_program(program));
            let log = runner.inner().log;
            Walk {
                events: log.events,
                after_failure: log.after_failure,
                result,
            }
        }
        Recorder::Interior => {
            let mut runner = ExprVisitorRunner::with_inner(InteriorRecorder {
                log: Log::new(fail_at, nonce),
            });
            let result = guarded(|| runner.visit_program(program));
            let log = runner.inner().log;
            Walk {
                events: log.events,
                after_failure: log.after_failure,
                result,
            }
        }
        Recorder::Full => {
            let mut runner = ExprVisitorRunner::with_inner(FullRecorder {
                log: Log::new(fail_at, nonce),
            });
            let result = guarded(|| runner.visit_program(program));
            let log = runner.inner().log;
            Walk {
                events: log.events,
                after_failure: log.after_failure,
                result,
            }
        }
        Recorder::Statements => {
            let mut r = StatementRecorder {
                log: Log::new(fail_at, nonce),
            };
            let result = guarded(|| r.visit_program(program));
            Walk {
                events: r.log.events,
                after_failure: r.log.after_failure,
                result,
            }
        }
    }
}

/// First occurrence of every kind of node a VisitExpr method takes.
#[derive(Default)]
struct Nodes<'a> {
    lhs: Option<&'a AssignmentLHS>,
    rhs: Option<&'a AssignmentRHS>,
    pnrhs: Option<&'a PoeticNumberAssignmentRHS>,
    poetic: Option<&'a PoeticNumberLiteral>,
    pushrhs: Option<&'a ArrayPushRHS>,
    popexpr: Option<&'a ArrayPopExpr>,
    binop: Option<BinaryOperator>,
    unop: Option<UnaryOperator>,
    list: Option<&'a ExpressionList>,
    expr: Option<&'a Expression>,
    primary: Option<&'a PrimaryExpression>,
    binary: Option<&'a BinaryExpression>,
    unary: Option<&'a UnaryExpression>,
    subscript: Option<&'a ArraySubscript>,
    literal: Option<&'a WithRange<LiteralExpression>>,
    call: Option<&'a FunctionCall>,
    ident: Option<&'a WithRange<Identifier>>,
    pronoun: Option<SourceRange>,
    simple: Option<(&'a SimpleIdentifier, SourceRange)>,
    common: Option<(&'a CommonIdentifier, SourceRange)>,
    proper: Option<(&'a ProperIdentifier, SourceRange)>,
    varname: Option<(&'a VariableName, SourceRange)>,
}

impl<'a> Nodes<'a> {
    fn program(&mut self, p: &'a Program) {
        for b in &p.code {
            self.block(b);
        }
    }
    fn block(&mut self, b: &'a Block) {
        if let Block::NonEmpty(stmts) = b {
            for s in stmts {
                self.stmt(s);
            }
        }
    }
    fn stmt(&mut self, s: &'a Statement) {
        match s {
            Statement::Assignment(a) => {
                self.lhs(&a.dest);
                self.rhs.get_or_insert(&a.value);
                if let Some(o) = a.operator {
                    self.binop.get_or_insert(o);
                }
                match &a.value {
                    AssignmentRHS::ExpressionList(l) => self.list(l),
                }
            }
            Statement::PoeticAssignment(PoeticAssignment::Number(a)) => {
                self.lhs(&a.dest);
                self.pnrhs.get_or_insert(&a.rhs);
                match &a.rhs {
                    PoeticNumberAssignmentRHS::Expression(e) => self.expr(e),
                    PoeticNumberAssignmentRHS::PoeticNumberLiteral(p) => {
                        self.poetic.get_or_insert(p);
                    }
                }
            }
            Statement::PoeticAssignment(PoeticAssignment::String(a)) => self.lhs(&a.dest),
            Statement::If(i) => {
                self.expr(&i.condition);
                self.block(&i.then_block);
                if let Some(e) = &i.else_block {
                    self.block(e);
                }
            }
            Statement::While(w) => {
                self.expr(&w.condition);
                self.block(&w.block);
            }
            Statement::Until(u) => {
                self.expr(&u.condition);
                self.block(&u.block);
            }
            Statement::Inc(i) => self.ident(&i.dest),
            Statement::Dec(d) => self.ident(&d.dest),
            Statement::Input(i) => {
                if let InputDest::Some(d) = &i.dest {
                    self.lhs(d);
                }
            }
            Statement::Output(o) => self.expr(&o.value),
            Statement::Mutation(m) => {
                self.primary(&m.operand);
                if let Some(d) = &m.dest {
                    self.lhs(d);
                }
                if let Some(p) = &m.param {
                    self.expr(p);
                }
            }
            Statement::Rounding(r) => self.expr(&r.operand),
            Statement::Continue(_) | Statement::Break(_) => {}
            Statement::ArrayPush(a) => {
                self.primary(&a.array);
                if let Some(v) = &a.value {
                    self.pushrhs.get_or_insert(v);
                    match v {
                        ArrayPushRHS::ExpressionList(l) => self.list(l),
                        ArrayPushRHS::PoeticNumberLiteral(p) => {
                            self.poetic.get_or_insert(p);
                        }
                    }
                }
            }
            Statement::ArrayPop(a) => {
                self.popexpr.get_or_insert(&a.expr);
                self.primary(&a.expr.array);
                if let Some(d) = &a.dest {
                    self.lhs(d);
                }
            }
            Statement::Return(r) => self.expr(&r.value),
            Statement::Function(f) => {
                self.var(&f.name.0, &f.name.1);
                for p in &f.data.params {
                    self.var(&p.0, &p.1);
                }
                self.block(&f.data.body);
            }
            Statement::FunctionCall(c) => self.call(c),
        }
    }
    fn lhs(&mut self, l: &'a AssignmentLHS) {
        self.lhs.get_or_insert(l);
        match l {
            AssignmentLHS::Identifier(i) => self.ident(i),
            AssignmentLHS::ArraySubscript(a) => self.subscript(a),
        }
    }
    fn ident(&mut self, i: &'a WithRange<Identifier>) {
        self.ident.get_or_insert(i);
        match &i.0 {
            Identifier::VariableName(v) => self.var(v, &i.1),
            Identifier::Pronoun => {
                self.pronoun.get_or_insert(i.1.clone());
            }
        }
    }
    fn var(&mut self, v: &'a VariableName, r: &SourceRange) {
        self.varname.get_or_insert((v, r.clone()));
        match v {
            VariableName::Simple(x) => {
                self.simple.get_or_insert((x, r.clone()));
            }
            VariableName::Common(x) => {
                self.common.get_or_insert((x, r.clone()));
            }
            VariableName::Proper(x) => {
                self.proper.get_or_insert((x, r.clone()));
            }
        }
    }
    fn subscript(&mut self, a: &'a ArraySubscript) {
        self.subscript.get_or_insert(a);
        self.primary(&a.array);
        self.primary(&a.subscript);
    }
    fn call(&mut self, c: &'a FunctionCall) {
        self.call.get_or_insert(c);
        self.var(&c.name.0, &c.name.1);
        for a in &c.args {
            self.expr(a);
        }
    }
    fn list(&mut self, l: &'a ExpressionList) {
        self.list.get_or_insert(l);
        self.expr(&l.first);
        for e in &l.rest {
            self.expr(e);
        }
    }
    fn expr(&mut self, e: &'a Expression) {
        self.expr.get_or_insert(e);
        match e {
            Expression::PrimaryExpression(p) => self.primary(p),
            Expression::BinaryExpression(b) => {
                self.binary.get_or_insert(b);
                self.binop.get_or_insert(b.operator);
                self.expr(&b.lhs);
                self.list(&b.rhs);
            }
            Expression::UnaryExpression(u) => {
                self.unary.get_or_insert(u);
                self.unop.get_or_insert(u.operator);
                self.expr(&u.operand);
            }
        }
    }
    fn primary(&mut self, p: &'a PrimaryExpression) {
        self.primary.get_or_insert(p);
        match p {
            PrimaryExpression::Literal(l) => {
                self.literal.get_or_insert(l);
            }
            PrimaryExpression::Identifier(i) => self.ident(i),
            PrimaryExpression::ArraySubscript(a) => self.subscript(a),
            PrimaryExpression::FunctionCall(c) => self.call(c),
            PrimaryExpression::ArrayPop(a) => {
                self.popexpr.get_or_insert(a);
                self.primary(&a.array);
            }
        }
    }
}

/// Every VisitExpr method of the runner, called directly, must do what the
/// wrapped visitor's method does (the runner forwards). Returns the name of
/// the first method for which the two differ.
fn direct_calls_differ(program: &Program, nonce: u64) -> Option<(String, Vec<String>, Vec<String>)> {
    let mut n = Nodes::default();
    n.program(program);
    macro_rules! compare {
        ($name:expr, $call:expr) => {{
            crate::driver::heartbeat();
            let mut bare = FullRecorder {
                log: Log::new(None, nonce),
            };
            #[allow(clippy::redundant_closure_call)]
            let r1: Result<Result<Trace, Injected>, String> = guarded(|| ($call)(&mut bare));
            let mut runner = ExprVisitorRunner::with_inner(FullRecorder {
                log: Log::new(None, nonce),
            });
            let r2: Result<Result<Trace, Injected>, String> = guarded(|| ($call)(&mut runner));
            let inner = runner.inner();
            if bare.log.events != inner.log.events || r1 != r2 {
                return Some(($name.to_string(), bare.log.events, inner.log.events));
            }
        }};
    }
    if let Some(x) = n.lhs {
        compare!("visit_assignment_lhs", |v: &mut dyn DynExpr| v.d_lhs(x));
    }
    if let Some(x) = n.rhs {
        compare!("visit_assignment_rhs", |v: &mut dyn DynExpr| v.d_rhs(x));
    }
    if let Some(x) = n.pnrhs {
        compare!("visit_poetic_number_assignment_rhs", |v: &mut dyn DynExpr| v.d_pnrhs(x));
    }
    if let Some(x) = n.poetic {
        compare!("visit_poetic_number_literal", |v: &mut dyn DynExpr| v.d_poetic(x));
        if let Some(e) = x.elems.first() {
            compare!("visit_poetic_number_literal_elem", |v: &mut dyn DynExpr| v.d_elem(e));
        }
    }
    if let Some(x) = n.pushrhs {
        compare!("visit_array_push_rhs", |v: &mut dyn DynExpr| v.d_pushrhs(x));
    }
    if let Some(x) = n.popexpr {
        compare!("visit_array_pop_expr", |v: &mut dyn DynExpr| v.d_popexpr(x));
    }
    if let Some(x) = n.binop {
        compare!("visit_binary_operator", |v: &mut dyn DynExpr| v.d_binop(x));
    }
    if let Some(x) = n.unop {
        compare!("visit_unary_operator", |v: &mut dyn DynExpr| v.d_unop(x));
    }
    if let Some(x) = n.list {
        compare!("visit_expression_list", |v: &mut dyn DynExpr| v.d_list(x));
    }
    if let Some(x) = n.expr {
        compare!("visit_expression", |v: &mut dyn DynExpr| v.d_expr(x));
    }
    if let Some(x) = n.primary {
        compare!("visit_primary_expression", |v: &mut dyn DynExpr| v.d_primary(x));
    }
    if let Some(x) = n.binary {
        compare!("visit_binary_expression", |v: &mut dyn DynExpr| v.d_binary(x));
    }
    if let Some(x) = n.unary {
        compare!("visit_unary_expression", |v: &mut dyn DynExpr| v.d_unary(x));
    }
    if let Some(x) = n.subscript {
        compare!("visit_array_subscript", |v: &mut dyn DynExpr| v.d_subscript(x));
    }
    if let Some(x) = n.literal {
        compare!("visit_literal_expression", |v: &mut dyn DynExpr| v.d_literal(x));
    }
    if let Some(x) = n.call {
        compare!("visit_function_call", |v: &mut dyn DynExpr| v.d_call(x));
    }
    if let Some(x) = n.ident {
        compare!("visit_identifier", |v: &mut dyn DynExpr| v.d_ident(x));
    }
    if let Some(x) = &n.pronoun {
        compare!("visit_pronoun", |v: &mut dyn DynExpr| v.d_pronoun(x.clone()));
    }
    if let Some((x, r)) = &n.varname {
        compare!("visit_variable_name", |v: &mut dyn DynExpr| v.d_varname(WithRange(*x, r.clone())));
    }
    if let Some((x, r)) = &n.simple {
        compare!("visit_simple_identifier", |v: &mut dyn DynExpr| v.d_simple(WithRange(*x, r.clone())));
    }
    if let Some((x, r)) = &n.common {
        compare!("visit_common_identifier", |v: &mut dyn DynExpr| v.d_common(WithRange(*x, r.clone())));
    }
    if let Some((x, r)) = &n.proper {
        compare!("visit_proper_identifier", |v: &mut dyn DynExpr| v.d_proper(WithRange(*x, r.clone())));
    }
    None
}

/// Object-safe view of "a VisitExpr with Output = Trace, Error = Injected",
/// so that the same call can be made on the bare visitor and on the runner.
trait DynExpr {
    fn d_lhs(&mut self, a: &AssignmentLHS) -> Result<Trace, Injected>;
    fn d_rhs(&mut self, a: &AssignmentRHS) -> Result<Trace, Injected>;
    fn d_pnrhs(&mut self, a: &PoeticNumberAssignmentRHS) -> Result<Trace, Injected>;
    fn d_poetic(&mut self, a: &PoeticNumberLiteral) -> Result<Trace, Injected>;
    fn d_elem(&mut self, a: &PoeticNumberLiteralElem) -> Result<Trace, Injected>;
    fn d_pushrhs(&mut self, a: &ArrayPushRHS) -> Result<Trace, Injected>;
    fn d_popexpr(&mut self, a: &ArrayPopExpr) -> Result<Trace, Injected>;
    fn d_binop(&mut self, a: BinaryOperator) -> Result<Trace, Injected>;
    fn d_unop(&mut self, a: UnaryOperator) -> Result<Trace, Injected>;
    fn d_list(&mut self, a: &ExpressionList) -> Result<Trace, Injected>;
    fn d_expr(&mut self, a: &Expression) -> Result<Trace, Injected>;
    fn d_primary(&mut self, a: &PrimaryExpression) -> Result<Trace, Injected>;
    fn d_binary(&mut self, a: &BinaryExpression) -> Result<Trace, Injected>;
    fn d_unary(&mut self, a: &UnaryExpression) -> Result<Trace, Injected>;
    fn d_subscript(&mut self, a: &ArraySubscript) -> Result<Trace, Injected>;
    fn d_literal(&mut self, a: &WithRange<LiteralExpression>) -> Result<Trace, Injected>;
    fn d_call(&mut self, a: &FunctionCall) -> Result<Trace, Injected>;
    fn d_ident(&mut self, a: &WithRange<Identifier>) -> Result<Trace, Injected>;
    fn d_pronoun(&mut self, a: SourceRange) -> Result<Trace, Injected>;
    fn d_varname(&mut self, a: WithRange<&VariableName>) -> Result<Trace, Injected>;
    fn d_simple(&mut self, a: WithRange<&SimpleIdentifier>) -> Result<Trace, Injected>;
    fn d_common(&mut self, a: WithRange<&CommonIdentifier>) -> Result<Trace, Injected>;
    fn d_proper(&mut self, a: WithRange<&ProperIdentifier>) -> Result<Trace, Injected>;
}

impl<T: VisitExpr<Output = Trace, Error = Injected>> DynExpr for T {
    fn d_lhs(&mut self, a: &AssignmentLHS) -> Result<Trace, Injected> {
        self.visit_assignment_lhs(a)
    }
    fn d_rhs(&mut self, a: &AssignmentRHS) -> Result<Trace, Injected> {
        self.visit_assignment_rhs(a)
    }
    fn d_pnrhs(&mut self, a: &PoeticNumberAssignmentRHS) -> Result<Trace, Injected> {
        self.visit_poetic_number_assignment_rhs(a)
    }
    fn d_poetic(&mut self, a: &PoeticNumberLiteral) -> Result<Trace, Injected> {
        self.visit_poetic_number_literal(a)
    }
    fn d_elem(&mut self, a: &PoeticNumberLiteralElem) -> Result<Trace, Injected> {
        self.visit_poetic_number_literal_elem(a)
    }
    fn d_pushrhs(&mut self, a: &ArrayPushRHS) -> Result<Trace, Injected> {
        self.visit_array_push_rhs(a)
    }
    fn d_popexpr(&mut self, a: &ArrayPopExpr) -> Result<Trace, Injected> {
        self.visit_array_pop_expr(a)
    }
    fn d_binop(&mut self, a: BinaryOperator) -> Result<Trace, Injected> {
        self.visit_binary_operator(a)
    }
    fn d_unop(&mut self, a: UnaryOperator) -> Result<Trace, Injected> {
        self.visit_unary_operator(a)
    }
    fn d_list(&mut self, a: &ExpressionList) -> Result<Trace, Injected> {
        self.visit_expression_list(a)
    }
    fn d_expr(&mut self, a: &Expression) -> Result<Trace, Injected> {
        self.visit_expression(a)
    }
    fn d_primary(&mut self, a: &PrimaryExpression) -> Result<Trace, Injected> {
        self.visit_primary_expression(a)
    }
    fn d_binary(&mut self, a: &BinaryExpression) -> Result<Trace, Injected> {
        self.visit_binary_expression(a)
    }
    fn d_unary(&mut self, a: &UnaryExpression) -> Result<Trace, Injected> {
        self.visit_unary_expression(a)
    }
    fn d_subscript(&mut self, a: &ArraySubscript) -> Result<Trace, Injected> {
        self.visit_array_subscript(a)
    }
    fn d_literal(&mut self, a: &WithRange<LiteralExpression>) -> Result<Trace, Injected> {
        self.visit_literal_expression(a)
    }
    fn d_call(&mut self, a: &FunctionCall) -> Result<Trace, Injected> {
        self.visit_function_call(a)
    }
    fn d_ident(&mut self, a: &WithRange<Identifier>) -> Result<Trace, Injected> {
        self.visit_identifier(a)
    }
    fn d_pronoun(&mut self, a: SourceRange) -> Result<Trace, Injected> {
        self.visit_pronoun(a)
    }
    fn d_varname(&mut self, a: WithRange<&VariableName>) -> Result<Trace, Injected> {
        self.visit_variable_name(a)
    }
    fn d_simple(&mut self, a: WithRange<&SimpleIdentifier>) -> Result<Trace, Injected> {
        self.visit_simple_identifier(a)
    }
    fn d_common(&mut self, a: WithRange<&CommonIdentifier>) -> Result<Trace, Injected> {
        self.visit_common_identifier(a)
    }
    fn d_proper(&mut self, a: WithRange<&ProperIdentifier>) -> Result<Trace, Injected> {
        self.visit_proper_identifier(a)
    }
}

struct TwoWalks {
    first: Vec<String>,
    second: Vec<String>,
    after_failure: usize,
    result1: Result<Result<Marked, Injected>, String>,
    result2: Result<Result<Marked, Injected>, String>,
}

/// Two consecutive walks of the same tree with the same runner instance (as
/// a linter re-running its passes does); the first may fail at `fail_at`,
/// the second never fails.
fn walk_twice(program: &Program, fail_at: Option<usize>, nonce: u64) -> TwoWalks {
    crate::driver::heartbeat();
    let mut runner = ExprVisitorRunner::with_inner(MarkedRecorder {
        log: Log::new(fail_at, nonce),
    });
    WALK_EPOCH.with(|e| e.set(1));
    let result1 = guarded(|| runner.visit_program(program));
    WALK_EPOCH.with(|e| e.set(2));
    let result2 = guarded(|| runner.visit_program(program));
    WALK_EPOCH.with(|e| e.set(1));
    let log = runner.inner().log;
    let split = log.first_walk_len.unwrap_or(log.events.len());
    TwoWalks {
        first: log.events[..split].to_vec(),
        second: log.events[split..].to_vec(),
        after_failure: log.after_failure,
        result1,
        result2,
    }
}

fn judge_marked(
    expected: &[Vec<String>],
    events: &[String],
    offset: usize,
    result: &Result<Result<Marked, Injected>, String>,
    which: &str,
) -> Option<(&'static str, String)> {
    let r = match result {
        Err(msg) => return Some(("C16.Q0-panic", format!("{} walk panicked: {}", which, msg))),
        Ok(r) => r,
    };
    if !expected.iter().any(|e| e[..] == *events) {
        return Some((
            "C16.Q1-every-node-once-in-order",
            format!(
                "{} walk with the same runner: {} callbacks delivered, the reference traversal has {}",
                which,
                events.len(),
                expected[0].len()
            ),
        ));
    }
    match r {
        Err(e) => Some((
            "C16.Q4-error-returned-unchanged",
            format!("{} walk: no callback failed but the walk returned Err({:?})", which, e),
        )),
        Ok(m) => {
            let plain: Vec<u32> = m.0.iter().copied().filter(|x| *x != MARK).collect();
            let want: Vec<u32> = (offset as u32..(offset + events.len()) as u32).collect();
            if plain != want {
                return Some((
                    "C16.Q2-left-to-right-fold",
                    format!("{} walk: folded result (defaults removed) is not the callbacks in order", which),
                ));
            }
            if m.0.first() != Some(&MARK) {
                return Some((
                    "C16.Q5-fold-starts-from-default",
                    format!(
                        "{} walk: the folded result of the whole walk does not start from the default (Output::default() is a visible marker; result begins with {:?})",
                        which,
                        m.0.first()
                    ),
                ));
            }
            None
        }
    }
}

fn admissible(rec: Recorder, program: &Program) -> Vec<Vec<String>> {
    match rec {
        Recorder::Statements => vec![ref_statements(program)],
        _ => {
            let mut all = Vec::new();
            // the shipped (infix) order first, then the documented latitude
            for (ib, ia) in [(true, true), (false, true), (true, false), (false, false)] {
                let mut w = RefWalk {
                    out: Vec::new(),
                    interior: rec == Recorder::Interior || rec == Recorder::Full,
                    full: rec == Recorder::Full,
                    infix_binary: ib,
                    infix_assign: ia,
                };
                w.program(program);
                if !all.contains(&w.out) {
                    all.push(w.out);
                }
            }
            all
        }
    }
}

fn judge(
    expected: &[Vec<String>],
    w: &Walk,
    fail_at: Option<usize>,
    nonce: u64,
) -> Option<(&'static str, String)> {
    let result = match &w.result {
        Err(msg) => return Some(("C16.Q0-panic", format!("traversal panicked: {}", msg))),
        Ok(r) => r,
    };
    match fail_at {
        None => {
            // Q1 every node once, in order
            if !expected.iter().any(|e| *e == w.events) {
                let e = &expected[0];
                let d = e
                    .iter()
                    .zip(w.events.iter())
                    .position(|(a, b)| a != b)
                    .unwrap_or(e.len().min(w.events.len()));
                return Some((
                    "C16.Q1-every-node-once-in-order",
                    format!(
                        "callback sequence differs from the reference traversal at position {} (got {} callbacks, expected {}): got {:?}, expected {:?}",
                        d,
                        w.events.len(),
                        e.len(),
                        w.events.get(d),
                        e.get(d)
                    ),
                ));
            }
            // Q2 left-to-right fold starting from the default
            match result {
                Ok(t) => {
                    let want: Vec<u32> = (0..w.events.len() as u32).collect();
                    if t.0 != want {
                        return Some((
                            "C16.Q2-left-to-right-fold",
                            format!("folded result is {:?}, expected 0..{}", &t.0[..t.0.len().min(12)], want.len()),
                        ));
                    }
                }
                Err(e) => {
                    return Some((
                        "C16.Q4-error-returned-unchanged",
                        format!("no callback failed but the walk returned Err({:?})", e),
                    ))
                }
            }
        }
        Some(k) => {
            // Q3 the walk ends at the first error
            if w.after_failure > 0 || w.events.len() != k + 1 {
                return Some((
                    "C16.Q3-stop-at-first-error",
                    format!(
                        "callback #{} failed but {} callbacks were delivered in total ({} after the failure)",
                        k,
                        w.events.len(),
                        w.after_failure
                    ),
                ));
            }
            if !expected.iter().any(|e| e.len() > k && e[..=k] == w.events[..]) {
                return Some((
                    "C16.Q1-every-node-once-in-order",
                    format!("callbacks before the failure at #{} are not a prefix of the reference traversal", k),
                ));
            }
            // Q4 the error is returned unchanged
            match result {
                Err(e) if *e == (Injected { k, nonce }) => {}
                other => {
                    return Some((
                        "C16.Q4-error-returned-unchanged",
                        format!(
                            "callback #{} returned Injected{{k:{},nonce:{}}} but the walk returned {:?}",
                            k,
                            k,
                            nonce,
                            other.as_ref().map(|t| t.0.len())
                        ),
                    ))
                }
            }
        }
    }
    None
}

/// Replace raw statement addresses by their ordinal so that logs and hashes
/// do not depend on memory layout.
fn normalise(events: &[String], reference: &[String]) -> Vec<String> {
    events
        .iter()
        .map(|e| match e.find('#') {
            Some(p) => {
                let ord = reference.iter().position(|r| r == e);
                format!("{}#{}", &e[..p], ord.map_or("?".to_string(), |o| o.to_string()))
            }
            None => e.clone(),
        })
        .collect()
}

impl Property for C16 {
    fn id(&self) -> &'static str {
        "C16"
    }

    fn plan(&self, tier: Tier) -> Plan {
        match tier {
            Tier::Quick => Plan {
                scenarios: 1500,
                time_cap_s: 60,
                shrink_budget: 1500,
            },
            Tier::Thorough => Plan {
                scenarios: 500_000,
                time_cap_s: 600,
                shrink_budget: 3000,
            },
        }
    }

    fn evidence_info(&self) -> EvidenceInfo {
        EvidenceInfo {
            level: "fault_enumeration",
            rule: "A scenario is a syntax tree built directly through the public AST fields from the tape (all 18 statement kinds, all expression forms, optional children present and absent, list tails 0-3, nested subscripts, calls with 1-4 arguments, functions with 1-4 parameters, poetic literals; every ranged leaf has a unique SourceRange as identity). Four recording visitors implemented outside the crate walk it: leaf callbacks only (through ExprVisitorRunner; every traversal default is real code), leaf + dispatch callbacks (through ExprVisitorRunner), a visitor overriding every VisitExpr method (through ExprVisitorRunner; tests the runner's statement traversal and forwarding), and a direct VisitProgram implementor. For each recorder: one walk without failure and one walk per callback index k with the failure injected at k (all k, both tiers). evaluations = walks. Non-trivial = the tree yields at least 3 leaf callbacks; distinct = distinct expected leaf-event list.".into(),
            assumptions: vec![
                "Reference traversal (sim/src/c16.rs: RefWalk, ref_statements) over the public AST fields defines 'every node once, children in field order'.".into(),
                "Latitude: the operator of BinaryExpression {operator, lhs, rhs} and of compound Assignment {dest, value, operator} may be visited in infix position (shipped behaviour) or in declaration order; everything else is strict.".into(),
                "Mutation operator and rounding direction are VisitProgram-level callbacks and are invisible to a VisitExpr visitor inside ExprVisitorRunner; they are observed by the direct VisitProgram recorder.".into(),
                "Trees are generated, not parsed: shapes the parser never produces (e.g. pronoun as function parameter is not generated, but arbitrary nesting is) are included.".into(),
            ],
            components_real: vec![
                "rrss::analysis::visit: VisitExpr and VisitProgram default methods, ExprVisitorRunner, combine_all, Combine, leaf".into(),
            ],
            components_stub: vec![
                "the visitor (recording visitor with injected failure); the parser is not involved (trees are built through public fields)".into(),
            ],
            step_unit: "visitor callbacks delivered",
            history_measure: "distinct complete callback sequences (recorder, event list with statement addresses replaced by ordinals) of the walks without failure; every prefix of each is additionally reached by the walk that fails there",
        }
    }

    fn run(&self, tape: &mut Tape, ctx: &Ctx, stats: &mut Stats) -> ScenarioResult {
        let (scramble_mul, scramble_xor) = if tape.chance(1, 2) {
            (2 * tape.draw(1 << 18) + 1, tape.draw(1 << 20))
        } else {
            (1, 0)
        };
        let program = {
            let mut g = TreeGen {
                scramble_mul,
                scramble_xor,
                t: tape,
                stats,
                serial: 0,
                nodes: 0,
                bodies: Vec::new(),
            };
            g.program()
        };
        let nonce = 1000 + tape.draw(1_000_000) as u64;
        let leaf_expected = admissible(Recorder::Leaf, &program);
        let key = {
            let mut h = 0xC16u64;
            for e in &leaf_expected[0] {
                h = hash_combine(h, hash_bytes(e.as_bytes()));
            }
            h
        };
        let mut res = ScenarioResult {
            violation: None,
            executions: 0,
            steps: 0,
            key,
            nontrivial: leaf_expected[0].len() >= 3,
            histories: Vec::new(),
            sample: None,
            digest: key,
        };
        for rec in [Recorder::Leaf, Recorder::Interior, Recorder::Statements, Recorder::Full] {
            let expected = if rec == Recorder::Leaf {
                leaf_expected.clone()
            } else {
                admissible(rec, &program)
            };
            let n = expected[0].len();
            stats.add("count.callbacks_in_reference_traversals", n as u64);
            let mut fail_positions: Vec<Option<usize>> = vec![None];
            fail_positions.extend((0..n).map(Some));
            for fail_at in fail_positions {
                let w = walk(rec, &program, fail_at, nonce);
                res.executions += 1;
                res.steps += w.events.len() as u64;
                if fail_at.is_some() {
                    stats.inc("fault.configured.callback_failure");
                    if w.events.len() > fail_at.unwrap() {
                        stats.inc("fault.fired.callback_failure");
                    }
                    if fail_at == Some(n - 1) {
                        stats.inc("probe.failure_at_last_callback");
                    }
                }
                let norm = normalise(&w.events, &expected[0]);
                let mut h = hash_combine(rec as u64, fail_at.map_or(u64::MAX, |k| k as u64));
                for e in &norm {
                    h = hash_combine(h, hash_bytes(e.as_bytes()));
                }
                res.digest = hash_combine(res.digest, h);
                if fail_at.is_none() {
                    res.histories.push(h);
                }
                if let Some((rule, detail)) = judge(&expected, &w, fail_at, nonce) {
                    res.violation = Some(Violation {
                        rule: rule.to_string(),
                        detail,
                        render: J::obj(vec![
                            ("tree", J::s(format!("{:#?}", program))),
                            ("recorder", J::s(format!("{:?}", rec))),
                            ("failing_callback_index", fail_at.map_or(J::Null, |k| J::U(k as u64))),
                            ("nonce", J::U(nonce)),
                            ("callbacks_delivered", J::A(norm.iter().map(|e| J::s(e.clone())).collect())),
                            (
                                "reference_traversal",
                                J::A(normalise(&expected[0], &expected[0]).iter().map(|e| J::s(e.clone())).collect()),
                            ),
                            ("result", J::s(match &w.result {
                                Ok(Ok(t)) => format!("Ok({:?})", t.0),
                                Ok(Err(e)) => format!("Err({:?})", e),
                                Err(m) => format!("PANIC({})", m),
                            })),
                        ]),
                        log_hash: h,
                        tags: vec![format!("recorder:{:?}", rec)],
                    });
                    return res;
                }
            }
        }
        // two consecutive walks with one runner instance; output type whose
        // default is a visible marker
        {
            let n = leaf_expected[0].len();
            let mut fails: Vec<Option<usize>> = vec![None];
            if n > 0 {
                fails.push(Some(tape.draw(n as u32) as usize));
                fails.push(Some(n - 1));
            }
            for fail_at in fails {
                let w = walk_twice(&program, fail_at, nonce);
                res.executions += 2;
                res.steps += (w.first.len() + w.second.len()) as u64;
                stats.inc("count.second_walks_with_the_same_runner");
                let mut verdict: Option<(&'static str, String)> = None;
                match fail_at {
                    None => verdict = judge_marked(&leaf_expected, &w.first, 0, &w.result1, "first"),
                    Some(k) => {
                        if w.after_failure > 0 || w.first.len() != k + 1 {
                            verdict = Some((
                                "C16.Q3-stop-at-first-error",
                                format!("first of two walks: callback #{} failed but {} callbacks were delivered", k, w.first.len()),
                            ));
                        }
                    }
                }
                if verdict.is_none() {
                    verdict = judge_marked(&leaf_expected, &w.second, w.first.len(), &w.result2, "second");
                }
                let mut h = hash_combine(0xE2, fail_at.map_or(u64::MAX, |k| k as u64));
                for e in w.first.iter().chain(w.second.iter()) {
                    h = hash_combine(h, hash_bytes(e.as_bytes()));
                }
                res.digest = hash_combine(res.digest, h);
                if let Some((rule, detail)) = verdict {
                    res.violation = Some(Violation {
                        rule: rule.to_string(),
                        detail,
                        render: J::obj(vec![
                            ("tree", J::s(format!("{:#?}", program))),
                            ("recorder", J::s("leaf callbacks, default is a visible marker; two walks with one runner")),
                            ("failing_callback_index_in_first_walk", fail_at.map_or(J::Null, |k| J::U(k as u64))),
                            ("first_walk_callbacks", J::A(w.first.iter().map(|e| J::s(e.clone())).collect())),
                            ("second_walk_callbacks", J::A(w.second.iter().map(|e| J::s(e.clone())).collect())),
                            ("reference_traversal", J::A(leaf_expected[0].iter().map(|e| J::s(e.clone())).collect())),
                            ("first_result", J::s(format!("{:?}", w.result1))),
                            ("second_result", J::s(format!("{:?}", w.result2))),
                        ]),
                        log_hash: h,
                        tags: vec!["recorder:MarkedTwice".into()],
                    });
                    return res;
                }
            }
        }
        // every VisitExpr method of the runner called directly
        {
            stats.inc("count.direct_call_comparisons");
            if let Some((method, bare, via_runner)) = direct_calls_differ(&program, nonce) {
                res.violation = Some(Violation {
                    rule: "C16.Q7-runner-forwards-every-method".into(),
                    detail: format!("ExprVisitorRunner::{} called directly does not do what the wrapped visitor's {} does", method, method),
                    render: J::obj(vec![
                        ("tree", J::s(format!("{:#?}", program))),
                        ("method", J::s(method.clone())),
                        ("callbacks_of_the_bare_visitor", J::A(bare.iter().map(|e| J::s(e.clone())).collect())),
                        ("callbacks_through_the_runner", J::A(via_runner.iter().map(|e| J::s(e.clone())).collect())),
                    ]),
                    log_hash: hash_combine(key, hash_bytes(method.as_bytes())),
                    tags: vec!["recorder:DirectCalls".into()],
                });
                return res;
            }
        }
        // the shape of the fold: every node folds its children's results left
        // to right (observable only with a Combine that is not associative)
        {
            crate::driver::heartbeat();
            let mut runner = ExprVisitorRunner::with_inner(ShapeRecorder {
                log: Log::new(None, nonce),
            });
            let result = guarded(|| runner.visit_program(&program));
            res.executions += 1;
            stats.inc("count.fold_shape_walks");
            if let Ok(Ok(shape)) = &result {
                let mut admissible_shapes: Vec<Shape> = Vec::new();
                for (ib, ia) in [(true, true), (false, true), (true, false), (false, false)] {
                    let mut r = RefShape {
                        next: 0,
                        infix_binary: ib,
                        infix_assign: ia,
                    };
                    admissible_shapes.push(r.program(&program));
                }
                if !admissible_shapes.contains(shape) {
                    let got = shape.render();
                    let want = admissible_shapes[0].render();
                    let h = hash_combine(0xF6, hash_bytes(got.as_bytes()));
                    res.violation = Some(Violation {
                        rule: "C16.Q6-each-node-folds-left-to-right".into(),
                        detail: "the grouping of the folded result differs from folding every node's children left to right (recorded with a Combine that is not associative; defaults count as identity)".into(),
                        render: J::obj(vec![
                            ("tree", J::s(format!("{:#?}", program))),
                            ("fold_recorded", J::s(got)),
                            ("fold_expected", J::s(want)),
                            ("callbacks", J::A(leaf_expected[0].iter().map(|e| J::s(e.clone())).collect())),
                        ]),
                        log_hash: h,
                        tags: vec!["recorder:Shape".into()],
                    });
                    return res;
                }
            }
        }
        if ctx.want_sample {
            res.sample = Some(J::obj(vec![
                ("tree", J::s(format!("{:?}", program))),
                ("leaf_callbacks_expected", J::A(leaf_expected[0].iter().map(|e| J::s(e.clone())).collect())),
                ("walks", J::U(res.executions)),
            ]));
        }
        res
    }
}
