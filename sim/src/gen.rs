//! Tape-driven generation of I/O scripts and input texts.

use crate::render::var_name;
use crate::script::*;
use crate::tape::Tape;

pub struct Gen<'t> {
    t: &'t mut Tape,
    vars: Vec<(String, VarKind)>,
    funcs: Vec<Func>,
    serial: u32,
    name_counter: usize,
}

#[derive(Clone)]
struct Scope {
    /// string variables that may be said / listened into here
    strs: Vec<VarId>,
    arrays: Vec<VarId>,
    /// loop counters of enclosing Repeat loops
    counters: Vec<VarId>,
    /// function parameters visible here
    params: Vec<VarId>,
    in_func: bool,
    loop_depth: u32,
    /// innermost loop allows `continue`
    continue_ok: bool,
    depth: u32,
}

const WORDS: &[&str] = &[
    "hello", "world", "rock", "ön", "ñandú", "日本", "a b", "x", "ÿ", "🎸", "tab\there", "quo'te",
    "back`tick", "`", "a`b`c`d", "{} %s $X \\n", "semi;colon (paren) [bracket]",
];

impl<'t> Gen<'t> {
    pub fn new(t: &'t mut Tape) -> Self {
        Self {
            t,
            vars: Vec::new(),
            funcs: Vec::new(),
            serial: 0,
            name_counter: 0,
        }
    }

    fn new_var(&mut self, kind: VarKind) -> VarId {
        let pick = self.t.draw(3) as usize;
        let name = var_name(self.name_counter, pick);
        self.name_counter += 1;
        self.vars.push((name, kind));
        self.vars.len() - 1
    }

    fn lit(&mut self) -> String {
        self.serial += 1;
        let w = *self.t.pick(WORDS);
        format!("{}:{}", self.serial, w)
    }

    pub fn script(mut self) -> Script {
        let nstr = 1 + self.t.draw(3) as usize;
        let mut scope = Scope {
            strs: Vec::new(),
            arrays: Vec::new(),
            counters: Vec::new(),
            params: Vec::new(),
            in_func: false,
            loop_depth: 0,
            continue_ok: false,
            depth: 0,
        };
        for _ in 0..nstr {
            let v = self.new_var(VarKind::Str);
            scope.strs.push(v);
        }
        if self.t.chance(1, 3) {
            let v = self.new_var(VarKind::Array);
            scope.arrays.push(v);
        }
        let nfuncs = self.t.weighted(&[5, 3, 1]);
        for _ in 0..nfuncs {
            self.function(&scope);
        }
        let at = self.t.pos();
        let n = 1 + self.t.draw(8);
        let mut main = self.block(&scope, n, at);
        if self.t.chance(1, 6) {
            let d = self.die_kind();
            main.push(Op::Die(d));
            // statements after the error must never run
            let tail = self.lit();
            main.push(Op::SayLit(tail));
        }
        Script {
            vars: self.vars,
            funcs: self.funcs,
            main,
        }
    }

    fn die_kind(&mut self) -> DieKind {
        match self.t.draw(4) {
            0 => DieKind::IncString,
            1 => DieKind::UndefinedVar,
            2 => DieKind::PopString,
            _ => {
                if self.funcs.is_empty() {
                    DieKind::IncString
                } else {
                    DieKind::WrongArgCount(self.t.draw(self.funcs.len() as u32) as usize)
                }
            }
        }
    }

    fn function(&mut self, outer: &Scope) {
        let name = self.new_var(VarKind::Func);
        // mostly one or two parameters; sometimes more than the interpreter's
        // inline argument capacity (8)
        let nparams = [1usize, 2, 1, 2, 3, 5, 9, 11][self.t.weighted(&[6, 6, 0, 0, 2, 1, 1, 1])];
        let params: Vec<VarId> = (0..nparams).map(|_| self.new_var(VarKind::Param)).collect();
        let nlocals = 1 + self.t.draw(2) as usize;
        let locals: Vec<VarId> = (0..nlocals).map(|_| self.new_var(VarKind::Str)).collect();
        let mut strs = locals.clone();
        // globals are visible (and writable) inside functions
        if self.t.chance(1, 2) {
            strs.extend(outer.strs.iter().copied());
        }
        let scope = Scope {
            strs,
            arrays: outer.arrays.clone(),
            counters: Vec::new(),
            params: params.clone(),
            in_func: true,
            loop_depth: 0,
            continue_ok: false,
            depth: 1,
        };
        let at = self.t.pos();
        let n = 1 + self.t.draw(4);
        let mut body = self.block(&scope, n, at);
        if self.t.chance(5, 6) {
            let r = self.ret(&scope);
            body.push(Op::Return(r));
        }
        self.funcs.push(Func {
            name,
            params,
            locals,
            body,
        });
    }

    fn ret(&mut self, s: &Scope) -> Ret {
        match self.t.draw(3) {
            0 => {
                let pool: Vec<VarId> = s.strs.iter().chain(s.params.iter()).copied().collect();
                Ret::Var(*self.t.pick(&pool))
            }
            1 => Ret::Lit(self.lit()),
            _ => {
                let pool: Vec<VarId> = s.strs.iter().chain(s.params.iter()).copied().collect();
                let v = *self.t.pick(&pool);
                Ret::Concat(self.lit(), v)
            }
        }
    }

    fn key(&mut self) -> Key {
        if self.t.chance(1, 3) {
            Key::Str((*self.t.pick(&["k", "näme", "a b"])).to_string())
        } else {
            Key::Num(self.t.draw(4))
        }
    }

    fn dest(&mut self, s: &Scope) -> VarRef {
        if !s.arrays.is_empty() && self.t.chance(1, 4) {
            let a = *self.t.pick(&s.arrays);
            VarRef::At(a, self.key())
        } else {
            VarRef::Plain(*self.t.pick(&s.strs))
        }
    }

    fn sayable(&mut self, s: &Scope) -> VarRef {
        let mut pool: Vec<VarRef> = s.strs.iter().map(|v| VarRef::Plain(*v)).collect();
        pool.extend(s.params.iter().map(|v| VarRef::Plain(*v)));
        pool.extend(s.counters.iter().map(|v| VarRef::Plain(*v)));
        let i = self.t.draw(pool.len() as u32 + s.arrays.len() as u32 * 2) as usize;
        if i < pool.len() {
            pool[i].clone()
        } else {
            let a = s.arrays[(i - pool.len()) / 2];
            if (i - pool.len()) % 2 == 0 {
                VarRef::Plain(a)
            } else {
                VarRef::At(a, self.key())
            }
        }
    }

    fn scalar(&mut self, s: &Scope) -> VarId {
        let pool: Vec<VarId> = s
            .strs
            .iter()
            .chain(s.params.iter())
            .chain(s.counters.iter())
            .copied()
            .collect();
        *self.t.pick(&pool)
    }

    fn args(&mut self, s: &Scope, f: usize) -> Vec<Arg> {
        self.args_nested(s, f, 0)
    }

    fn args_nested(&mut self, s: &Scope, f: usize, depth: u32) -> Vec<Arg> {
        let n = self.funcs[f].params.len();
        let mut args: Vec<Arg> = (0..n)
            .map(|_| match self.t.draw(3) {
                0 => Arg::Lit(self.lit()),
                1 => Arg::Int(self.t.draw(100) as i64 - 20),
                _ => Arg::Var(self.scalar(s)),
            })
            .collect();
        // the last argument may itself be a call (I/O while the arguments of
        // another call are being evaluated)
        if depth < 2 && self.t.chance(1, 4) {
            let g = self.t.draw(self.funcs.len() as u32) as usize;
            let inner = self.args_nested(s, g, depth + 1);
            *args.last_mut().unwrap() = Arg::Call(g, inner);
        }
        args
    }

    fn cond(&mut self, s: &Scope) -> Cond {
        let mut options = vec![0, 1];
        if !s.counters.is_empty() {
            options.push(2);
            options.push(3);
        }
        options.push(4);
        options.push(5);
        match *self.t.pick(&options) {
            0 => Cond::Const(true),
            1 => Cond::Const(false),
            2 => Cond::CounterIs(*self.t.pick(&s.counters), 1 + self.t.draw(3) as i64),
            3 => Cond::CounterLess(*self.t.pick(&s.counters), 1 + self.t.draw(3) as i64),
            4 => Cond::VarIsEmpty(*self.t.pick(&s.strs)),
            _ => Cond::VarNotEmpty(*self.t.pick(&s.strs)),
        }
    }

    /// `count_at`: tape index at which `n` was drawn
    fn block(&mut self, s: &Scope, n: u32, count_at: usize) -> Vec<Op> {
        let mut ops = Vec::new();
        for _ in 0..n {
            let start = self.t.pos();
            self.op(s, &mut ops);
            self.t.element(start, count_at);
        }
        ops
    }

    fn op(&mut self, s: &Scope, ops: &mut Vec<Op>) {
        let can_nest = s.depth < 3;
        let can_loop = s.loop_depth < 2 && s.depth < 3;
        // a function body may call functions defined before it (never itself:
        // it is not in the list yet), so I/O also happens in nested calls
        let can_call = !self.funcs.is_empty();
        // weights; index 0 (say literal) is the plain choice
        let w = [
            6,                                // 0 say literal
            6,                                // 1 listen to dest
            4,                                // 2 say var
            2,                                // 3 bare listen
            3,                                // 4 say const
            1,                                // 5 say concat
            1,                                // 6 assign literal
            2,                                // 7 filler
            if can_nest { 3 } else { 0 },     // 8 if
            if can_loop { 2 } else { 0 },     // 9 repeat
            if can_loop { 1 } else { 0 },     // 10 listen loop
            if can_call { 3 } else { 0 },     // 11 say call
            if can_call { 1 } else { 0 },     // 12 call statement
            if can_call { 1 } else { 0 },     // 13 assign call
            1,                                // 14 listen + say it
            if s.depth > 0 { 1 } else { 0 },  // 15 die (rare, nested)
            if s.counters.is_empty() { 0 } else { 2 }, // 16 say arithmetic on a counter
            2,                                // 17 say a condition / the length of a line
        ];
        match self.t.weighted(&w) {
            0 => {
                if self.t.chance(1, 18) {
                    // a string with a line break in it, and a long run of
                    // text after the last break (line-buffered sinks treat
                    // the two parts differently)
                    let base = [16usize, 1024, 1024, 8192][self.t.draw(4) as usize];
                    let tail_len = base - 1 + self.t.draw(3) as usize;
                    let mut text = self.lit();
                    text.push('\n');
                    if self.t.chance(1, 2) {
                        text.push_str("second line\n");
                    }
                    for k in 0..tail_len {
                        text.push((b'a' + (k % 23) as u8) as char);
                    }
                    ops.push(Op::SayLit(text))
                } else if self.t.chance(1, 14) {
                    // a text of an exact byte length around a power of two
                    // (somebody's fixed-size buffer)
                    let base = [64usize, 128, 256, 512, 1024, 4096, 8192][self.t.draw(7) as usize];
                    let len = base - 1 + self.t.draw(3) as usize;
                    let mut text = self.lit();
                    while text.len() < len {
                        text.push(if (len - text.len()) % 7 == 0 { ' ' } else { 'x' });
                    }
                    ops.push(Op::SayLit(text))
                } else {
                    ops.push(Op::SayLit(self.lit()))
                }
            }
            1 => ops.push(Op::Listen(Some(self.dest(s)))),
            2 => ops.push(Op::SayVar(self.sayable(s))),
            3 => ops.push(Op::Listen(None)),
            4 => {
                let c = match self.t.draw(9) {
                    8 => {
                        let (a, b) = *self.t.pick(&[
                            ("-0", "-0"),
                            ("-0.0", "-0"),
                            ("36028797018963968", "36028797018963970"),
                            ("123456789012345678", "123456789012345680"),
                            ("9007199254740993", "9007199254740992"),
                            ("1000000000000000000000", "1000000000000000000000"),
                            ("0.30000000000000004", "0.30000000000000004"),
                            ("1.0", "1"),
                            ("007", "7"),
                            ("2.50", "2.5"),
                        ]);
                        Const::Spelled(a, b)
                    }
                    7 => Const::Canonical(*self.t.pick(&[
                        "0.125", "1000000", "123456789", "0.001", "-0.75", "3.14159", "0", "65536",
                    ])),
                    0 => Const::Int(self.t.draw(2000) as i64 - 1000),
                    1 => Const::Half(self.t.draw(50) as i64),
                    2 => Const::True,
                    3 => Const::False,
                    4 => Const::Null,
                    5 => Const::Mysterious,
                    _ => Const::Empty,
                };
                ops.push(Op::SayConst(c))
            }
            5 => {
                let l = self.lit();
                ops.push(Op::SayConcat(l, self.scalar(s)))
            }
            6 => {
                let d = self.dest(s);
                ops.push(Op::AssignLit(d, self.lit()))
            }
            7 => ops.push(Op::Filler(self.t.draw(12))),
            8 => {
                let cond = self.cond(s);
                let mut inner = s.clone();
                inner.depth += 1;
                let at = self.t.pos();
                let n = 1 + self.t.draw(3);
                let mut then = self.block(&inner, n, at);
                // if/else inside a function body terminates the function
                // block on this tree; only generate else at top level
                let mut els = if !s.in_func && self.t.chance(1, 2) {
                    let at = self.t.pos();
                    let n = 1 + self.t.draw(3);
                    Some(self.block(&inner, n, at))
                } else {
                    None
                };
                if s.loop_depth > 0 && self.t.chance(1, 3) {
                    let jump = if s.continue_ok && self.t.chance(1, 2) {
                        Op::Continue
                    } else {
                        Op::Break
                    };
                    match (&mut els, self.t.chance(1, 3)) {
                        (Some(e), true) => e.push(jump),
                        _ => then.push(jump),
                    }
                } else if s.in_func && self.t.chance(1, 4) {
                    let r = self.ret(s);
                    then.push(Op::Return(r));
                }
                ops.push(Op::If { cond, then, els })
            }
            9 => {
                let counter = self.new_var(VarKind::Counter);
                let mut inner = s.clone();
                inner.depth += 1;
                inner.loop_depth += 1;
                inner.continue_ok = true;
                inner.counters.push(counter);
                let at = self.t.pos();
                let n = 1 + self.t.draw(3);
                let body = self.block(&inner, n, at);
                // mostly a few iterations; rarely many (somebody's counter or
                // batch size: 255/256/257, 1000, 4097)
                let n = if self.t.chance(1, 120) && s.loop_depth == 0 {
                    [255i64, 256, 257, 1000][self.t.draw(4) as usize]
                } else {
                    1 + self.t.draw(3) as i64
                };
                let body = if n > 100 {
                    // keep the body small: one say (and nothing that listens)
                    vec![Op::SayLit(self.lit())]
                } else {
                    body
                };
                ops.push(Op::Repeat { counter, n, body })
            }
            10 => {
                let line = self.new_var(VarKind::Str);
                let mut inner = s.clone();
                inner.depth += 1;
                inner.loop_depth += 1;
                inner.strs.push(line);
                let at = self.t.pos();
                let n = 1 + self.t.draw(3);
                if self.t.chance(1, 2) {
                    inner.continue_ok = false;
                    let mut body = self.block(&inner, n, at);
                    if self.t.chance(1, 2) {
                        body.insert(0, Op::SayVar(VarRef::Plain(line)));
                    }
                    ops.push(Op::ListenLoop { line, body })
                } else {
                    inner.continue_ok = true;
                    let mut body = self.block(&inner, n, at);
                    if self.t.chance(1, 2) {
                        body.insert(0, Op::SayVar(VarRef::Plain(line)));
                    }
                    ops.push(Op::ListenLoopBreak { line, body })
                }
            }
            11 => {
                let f = self.t.draw(self.funcs.len() as u32) as usize;
                let a = self.args(s, f);
                ops.push(Op::SayCall(f, a))
            }
            12 => {
                let f = self.t.draw(self.funcs.len() as u32) as usize;
                let a = self.args(s, f);
                ops.push(Op::CallStmt(f, a))
            }
            13 => {
                let f = self.t.draw(self.funcs.len() as u32) as usize;
                let a = self.args(s, f);
                let d = VarRef::Plain(*self.t.pick(&s.strs));
                ops.push(Op::AssignCall(d, f, a))
            }
            14 => {
                let v = *self.t.pick(&s.strs);
                if self.t.chance(1, 3) {
                    ops.push(Op::SayVar(VarRef::Plain(v)));
                    ops.push(Op::ListenIt(v))
                } else {
                    ops.push(Op::Listen(Some(VarRef::Plain(v))));
                    ops.push(Op::SayIt(v))
                }
            }
            16 => {
                let c = *self.t.pick(&s.counters);
                let op = self.t.draw(3) as u8;
                let k = self.t.draw(12) as i64;
                ops.push(Op::SayArith(c, op, k))
            }
            17 => {
                if self.t.chance(1, 2) {
                    let c = self.cond(s);
                    ops.push(Op::SayCond(c))
                } else {
                    let v = *self.t.pick(&s.strs);
                    ops.push(Op::SayLength(v))
                }
            }
            _ => {
                if self.t.chance(1, 4) {
                    let d = self.die_kind();
                    ops.push(Op::Die(d))
                } else {
                    ops.push(Op::SayLit(self.lit()))
                }
            }
        }
    }
}

/// Input text: 0–8 lines; empty lines, non-ASCII, embedded '\r' (never
/// directly before '\n'), with or without a final newline; occasionally a
/// line longer than the interpreter's 8 KiB read buffer.
pub fn gen_input(t: &mut Tape) -> Vec<u8> {
    let n = t.weighted(&[2, 3, 3, 3, 2, 2, 1, 1, 1]);
    let mut out: Vec<u8> = Vec::new();
    // a text typed or saved with CR LF line ends (the carriage return is the
    // last character of the line as far as this interpreter is concerned)
    let crlf = t.chance(1, 8);
    // a text saved with a byte order mark at its very start (as far as this
    // interpreter is concerned the mark belongs to the first line)
    if n > 0 && t.chance(1, 10) {
        out.extend_from_slice("\u{feff}".as_bytes());
    }
    for i in 0..n {
        match t.weighted(&[6, 2, 3, 1, 1, 1, 2, 1]) {
            0 => out.extend_from_slice(format!("in{}-{}", i, t.pick(WORDS)).as_bytes()),
            1 => {}
            2 => out.extend_from_slice(format!("ünï{} çödé {}", i, t.pick(WORDS)).as_bytes()),
            3 => out.extend_from_slice(format!("cr\rmid{}", i).as_bytes()),
            6 => out.extend_from_slice(
                (*t.pick(&[
                    "05", "1e3", "  42", "-0", "0x10", "true", "null", "mysterious", "3.50", "+7", "21", "7.5", "-3", "0", "inf", "NaN",
                    "nothing", "\"quoted\"", "1,2",
                ]))
                .as_bytes(),
            ),
            7 => out.extend_from_slice(
                match t.draw(3) {
                    0 => format!("trailing space {} \t", i),
                    1 => format!("nul\0and\u{7f}del{}", i),
                    _ => format!("\u{feff}bom and \u{2028} separator {}", i),
                }
                .as_bytes(),
            ),
            4 => {
                let len = 20 + t.draw(200) as usize;
                for k in 0..len {
                    out.push(b'a' + ((k + i) % 26) as u8);
                }
            }
            _ => {
                // longer than a power-of-two buffer somebody might use:
                // mostly just over 8 KiB (the interpreter's read buffer),
                // sometimes over 16, 32, 64 or 128 KiB
                let base = [8190usize, 8190, 8190, 16380, 32760, 65530, 65530, 131060]
                    [t.draw(8) as usize];
                let len = base + t.draw(600) as usize;
                for k in 0..len {
                    out.push(b'A' + ((k + i) % 26) as u8);
                }
                // a multi-byte character right at the end of the long line
                out.extend_from_slice("é".as_bytes());
            }
        }
        if i + 1 < n || !t.chance(1, 4) {
            if crlf || t.chance(1, 16) {
                out.push(b'\r');
            }
            out.push(b'\n');
        }
    }
    out
}
