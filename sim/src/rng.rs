//! The only source of randomness in the harness. Everything is derived from
//! VERIF_SEED through these functions.

#[inline]
pub fn splitmix(z: u64) -> u64 {
    let mut z = z.wrapping_add(0x9e37_79b9_7f4a_7c15);
    z = (z ^ (z >> 30)).wrapping_mul(0xbf58_476d_1ce4_e5b9);
    z = (z ^ (z >> 27)).wrapping_mul(0x94d0_49bb_1331_11eb);
    z ^ (z >> 31)
}

pub fn mix3(a: u64, b: u64, c: u64) -> u64 {
    splitmix(splitmix(splitmix(a) ^ b) ^ c)
}

/// FNV-1a over bytes, finished with splitmix. Used for history / scenario
/// identities (never for anything the system under test sees).
pub fn hash_bytes(bytes: &[u8]) -> u64 {
    let mut h: u64 = 0xcbf2_9ce4_8422_2325;
    for b in bytes {
        h = (h ^ u64::from(*b)).wrapping_mul(0x0000_0100_0000_01b3);
    }
    splitmix(h)
}

pub fn hash_combine(h: u64, x: u64) -> u64 {
    splitmix(h ^ x.wrapping_mul(0x9e37_79b9_7f4a_7c15))
}

/// xoshiro256**
#[derive(Clone, Debug)]
pub struct Rng {
    s: [u64; 4],
}

impl Rng {
    pub fn new(seed: u64) -> Self {
        let mut z = seed;
        let mut s = [0u64; 4];
        for x in s.iter_mut() {
            z = z.wrapping_add(0x9e37_79b9_7f4a_7c15);
            *x = splitmix(z);
        }
        Self { s }
    }

    pub fn next_u64(&mut self) -> u64 {
        let result = self.s[1].wrapping_mul(5).rotate_left(7).wrapping_mul(9);
        let t = self.s[1] << 17;
        self.s[2] ^= self.s[0];
        self.s[3] ^= self.s[1];
        self.s[1] ^= self.s[2];
        self.s[0] ^= self.s[3];
        self.s[2] ^= t;
        self.s[3] = self.s[3].rotate_left(45);
        result
    }

    /// Uniform in 0..n (n >= 1). The tiny modulo bias is irrelevant here.
    pub fn below(&mut self, n: u32) -> u32 {
        debug_assert!(n >= 1);
        ((self.next_u64() >> 32) % u64::from(n)) as u32
    }
}
