//! C08, process arm: the real `rrss exec` binary driven by a simulated
//! interactive peer over pipes. The peer answers prompts: it hands over input
//! line j only after everything the program says before its j-th listen has
//! arrived on the program's standard output (say-before-listen at the process
//! boundary), and in a second run it makes standard output fail at a chosen
//! point (closed pipe / full device) and requires a runtime error and a stop.

use std::io::{Read, Write};
use std::process::{Child, Command, Stdio};
use std::sync::mpsc::{channel, Receiver, RecvTimeoutError, Sender};
use std::time::Duration;

use crate::c08::Scenario;
use crate::json::{render_bytes, J};
use crate::procworld::{rrss_bin, strip_sgr, Scratch};
use crate::script::{Expect, Outcome};

/// How long the peer waits for bytes the program owes it. The program needs
/// microseconds; a wait this long means it is blocked (on its own listen, or
/// for ever).
const PATIENCE: Duration = Duration::from_secs(15);

enum Cmd {
    /// read until `total` bytes have been received in all
    ReadUntil(usize),
    ReadToEnd,
    /// shut the peer's end down (the program's next write fails with EPIPE)
    Close,
}

enum Reply {
    /// cumulative bytes so far, whether end-of-stream was reached
    Data(Vec<u8>, bool),
    Closed,
}

fn spawn_reader(mut out: std::os::unix::net::UnixStream) -> (Sender<Cmd>, Receiver<Reply>) {
    let (ctx, crx) = channel::<Cmd>();
    let (rtx, rrx) = channel::<Reply>();
    std::thread::spawn(move || {
        let mut got: Vec<u8> = Vec::new();
        let mut eof = false;
        let mut buf = [0u8; 4096];
        while let Ok(cmd) = crx.recv() {
            match cmd {
                Cmd::Close => {
                    // shutdown acts on the socket itself, not on this
                    // descriptor: the program's next write fails with EPIPE
                    // even if some process being forked elsewhere still holds
                    // a copy of a descriptor for an instant
                    let _ = out.shutdown(std::net::Shutdown::Both);
                    drop(out);
                    let _ = rtx.send(Reply::Closed);
                    return;
                }
                Cmd::ReadUntil(total) => {
                    while got.len() < total && !eof {
                        // never read past `total`: what comes later must stay
                        // in the pipe (it may have to meet a closed pipe)
                        let want = (total - got.len()).min(buf.len());
                        match out.read(&mut buf[..want]) {
                            Ok(0) | Err(_) => eof = true,
                            Ok(n) => got.extend_from_slice(&buf[..n]),
                        }
                    }
                    let _ = rtx.send(Reply::Data(got.clone(), eof));
                }
                Cmd::ReadToEnd => {
                    while !eof {
                        match out.read(&mut buf) {
                            Ok(0) | Err(_) => eof = true,
                            Ok(n) => got.extend_from_slice(&buf[..n]),
                        }
                    }
                    let _ = rtx.send(Reply::Data(got.clone(), true));
                }
            }
        }
    });
    (ctx, rrx)
}

fn wait_exit(child: &mut Child, patience: Duration) -> Option<std::process::ExitStatus> {
    let start = std::time::Instant::now();
    loop {
        match child.try_wait() {
            Ok(Some(st)) => return Some(st),
            Ok(None) => {
                if start.elapsed() > patience {
                    return None;
                }
                std::thread::sleep(Duration::from_micros(if start.elapsed().as_millis() < 50 {
                    200
                } else {
                    5000
                }));
            }
            Err(_) => return None,
        }
    }
}

/// True if the (single-threaded) program is blocked in read(2) on its
/// standard input: it cannot produce anything more until it is answered.
fn blocked_on_stdin(pid: u32) -> bool {
    match std::fs::read_to_string(format!("/proc/{}/syscall", pid)) {
        Ok(s) => {
            let mut it = s.split_whitespace();
            it.next() == Some("0") && it.next() == Some("0x0")
        }
        Err(_) => false,
    }
}

/// Waits for a reply from the reader thread. Gives up early, with a short
/// grace period for bytes in flight, once the program is seen blocked on its
/// standard input (it owes us bytes it can no longer send); otherwise after
/// PATIENCE.
fn await_reply(rx: &Receiver<Reply>, pid: u32) -> Option<Reply> {
    let start = std::time::Instant::now();
    let mut blocked_since: Option<std::time::Instant> = None;
    loop {
        match rx.recv_timeout(Duration::from_millis(2)) {
            Ok(r) => return Some(r),
            Err(RecvTimeoutError::Disconnected) => return None,
            Err(RecvTimeoutError::Timeout) => {
                if blocked_on_stdin(pid) {
                    let since = *blocked_since.get_or_insert_with(std::time::Instant::now);
                    if since.elapsed() > Duration::from_millis(1500) {
                        return None;
                    }
                } else {
                    blocked_since = None;
                }
                if start.elapsed() > PATIENCE {
                    return None;
                }
            }
        }
    }
}

/// Waits for the program to exit; gives up early once it is seen blocked on
/// its standard input for a while (nobody is going to answer).
fn wait_exit_or_blocked(child: &mut Child, pid: u32) -> Option<std::process::ExitStatus> {
    let start = std::time::Instant::now();
    let mut blocked_since: Option<std::time::Instant> = None;
    loop {
        match child.try_wait() {
            Ok(Some(st)) => return Some(st),
            Ok(None) => {}
            Err(_) => return None,
        }
        if blocked_on_stdin(pid) {
            let since = *blocked_since.get_or_insert_with(std::time::Instant::now);
            if since.elapsed() > Duration::from_millis(1500) {
                return None;
            }
        } else {
            blocked_since = None;
        }
        if start.elapsed() > PATIENCE {
            return None;
        }
        std::thread::sleep(Duration::from_micros(if start.elapsed().as_millis() < 50 { 200 } else { 2000 }));
    }
}

fn where_blocked(pid: u32) -> String {
    let wchan = std::fs::read_to_string(format!("/proc/{}/wchan", pid)).unwrap_or_default();
    let syscall = std::fs::read_to_string(format!("/proc/{}/syscall", pid)).unwrap_or_default();
    format!(
        "wchan={} syscall={}",
        wchan.trim(),
        syscall.split_whitespace().take(2).collect::<Vec<_>>().join(" ")
    )
}

/// Input split into the pieces the peer hands over one at a time (each line
/// with its terminator; a last piece may lack it).
fn pieces(input: &[u8]) -> Vec<&[u8]> {
    input.split_inclusive(|b| *b == b'\n').collect()
}

pub struct ProcOutcome {
    pub violation: Option<(&'static str, String, J)>,
    pub spawns: u64,
    pub stdout_fault_fired: bool,
}

#[derive(Clone, Copy, Debug, PartialEq, Eq)]
pub enum StdoutFault {
    None,
    /// the peer shuts its end of the socket down once everything said before
    /// listen #j (0-based) has arrived, then answers that listen
    ClosedAtListen(usize),
    /// standard output is a full device from the start
    DevFull,
}

pub fn applicable(sc: &Scenario, exp: &Expect) -> bool {
    exp.outcome != Outcome::Damaged
        && !exp.runaway
        && sc.input.len() < 16_384
        && std::str::from_utf8(&sc.input).is_ok()
}

/// Positions at which a closed standard output must be noticed: listens
/// after which the program says something before it listens again or ends.
///
/// Only listens that really wait for the peer qualify (the peer still has a
/// line to hand over): once standard input is at end of input the program no
/// longer blocks, and the peer could not place the fault before the say.
pub fn closable_listens(exp: &Expect, input: &[u8]) -> Vec<usize> {
    let waiting = pieces(input).len();
    (0..exp.listen_marks.len().min(waiting))
        .filter(|j| {
            let here = exp.listen_marks[*j];
            let next = exp.listen_marks.get(j + 1).copied().unwrap_or(exp.out.len());
            next > here
        })
        .collect()
}

pub fn run_peer(
    sc: &Scenario,
    exp: &Expect,
    scratch: &Scratch,
    fault: StdoutFault,
) -> Result<ProcOutcome, String> {
    crate::driver::heartbeat();
    let file = scratch
        .file("peer.rock", sc.source.as_bytes())
        .map_err(|e| e.to_string())?;
    let err_path = scratch.path.join("peer.err");
    let _ = std::fs::remove_file(&err_path);
    let err_file = std::fs::File::create(&err_path).map_err(|e| e.to_string())?;
    let mut cmd = Command::new(rrss_bin());
    cmd.arg("exec")
        .arg(&file)
        .env_clear()
        .env("RRSS_VERIF_HASH_SEED", "0")
        .current_dir(&scratch.path)
        .stdin(Stdio::piped())
        .stderr(Stdio::from(err_file));
    // every other scenario lives at another time with time passing quickly
    // (clock seam): when output reaches the peer does not depend on clocks
    let h = crate::rng::hash_bytes(sc.source.as_bytes());
    struct ClockAccount(Option<(std::path::PathBuf, Vec<(String, String)>)>);
    impl Drop for ClockAccount {
        fn drop(&mut self) {
            if let Some((report, env)) = &self.0 {
                crate::procworld::account_clock(report, env);
            }
        }
    }
    // (declared before the child: accounted for when the run is over)
    let mut _clock_account = ClockAccount(None);
    if h % 2 == 0 {
        let env = crate::procworld::clock_env_for(h);
        if !env.is_empty() {
            let report = scratch.path.join("peer.clock");
            for (k, v) in &env {
                cmd.env(k, v);
            }
            cmd.env("RRSS_VERIF_CLOCK_REPORT", &report);
            _clock_account = ClockAccount(Some((report, env)));
        }
    }
    if fault == StdoutFault::DevFull {
        let full = std::fs::OpenOptions::new()
            .write(true)
            .open("/dev/full")
            .map_err(|e| format!("/dev/full: {}", e))?;
        cmd.stdout(Stdio::from(full));
    }
    // standard output is one end of a socket pair (as under ssh or inetd); the
    // peer keeps the other end
    let mut peer_end: Option<std::os::unix::net::UnixStream> = None;
    if fault != StdoutFault::DevFull {
        let (ours, theirs) =
            std::os::unix::net::UnixStream::pair().map_err(|e| format!("socketpair: {}", e))?;
        cmd.stdout(Stdio::from(std::os::fd::OwnedFd::from(theirs)));
        peer_end = Some(ours);
    }
    let mut child = {
        let _guard = crate::procworld::SPAWN_LOCK
            .lock()
            .unwrap_or_else(|e| e.into_inner());
        cmd.spawn().map_err(|e| format!("cannot spawn rrss: {}", e))?
    };
    drop(cmd); // closes our copy of the program's end of the socket pair
    let pid = child.id();
    let mut stdin = child.stdin.take();
    let reader = peer_end.take().map(spawn_reader);
    let parts = pieces(&sc.input);
    let mut next_piece = 0usize;
    let mut transcript: Vec<J> = Vec::new();
    let mut got: Vec<u8> = Vec::new();
    let mut out = ProcOutcome {
        violation: None,
        spawns: 1,
        stdout_fault_fired: false,
    };
    let mut stdout_closed = fault == StdoutFault::DevFull;

    let finish = |child: &mut Child,
                  out: &mut ProcOutcome,
                  rule: &'static str,
                  detail: String,
                  transcript: &Vec<J>,
                  got: &Vec<u8>| {
        let _ = child.kill();
        let _ = child.wait();
        let stderr = std::fs::read(&err_path).unwrap_or_default();
        out.violation = Some((
            rule,
            detail,
            J::obj(vec![
                ("arm", J::s("process: real `rrss exec` driven by a simulated interactive peer over pipes")),
                ("program", J::s(sc.source.clone())),
                ("input", J::S(render_bytes(&sc.input))),
                ("stdout_fault", J::s(format!("{:?}", fault))),
                ("expected_output", J::S(render_bytes(&exp.out))),
                (
                    "expected_output_length_before_each_listen",
                    J::A(exp.listen_marks.iter().map(|m| J::U(*m as u64)).collect()),
                ),
                ("expected_outcome", J::s(format!("{:?}", exp.outcome))),
                ("stdout_received", J::S(render_bytes(got))),
                ("stderr", J::S(render_bytes(&strip_sgr(&stderr)))),
                ("peer_transcript", J::A(transcript.clone())),
            ]),
        ));
    };

    // the dialogue
    for j in 0..exp.listen_marks.len() {
        let need = exp.listen_marks[j];
        if !stdout_closed {
            let (tx, rx) = reader.as_ref().unwrap();
            let _ = tx.send(Cmd::ReadUntil(need));
            match await_reply(rx, pid) {
                Some(Reply::Data(bytes, eof)) => {
                    got = bytes;
                    if got.len() < need && eof {
                        finish(&mut child, &mut out, "C08.X2-process-output-content",
                            format!("standard output ended after {} bytes; {} bytes are said before listen #{}", got.len(), need, j + 1),
                            &transcript, &got);
                        return Ok(out);
                    }
                }
                Some(Reply::Closed) => {}
                None => {
                    let w = where_blocked(pid);
                    finish(&mut child, &mut out, "C08.X1-process-say-before-listen",
                        format!("the {} bytes said before listen #{} did not arrive on standard output before the program needed the answer to that listen (program state: {})", need, j + 1, w),
                        &transcript, &got);
                    return Ok(out);
                }
            }
            if got[..need.min(got.len())] != exp.out[..need.min(got.len())] {
                finish(&mut child, &mut out, "C08.X2-process-output-content",
                    format!("standard output before listen #{} differs from the expected output", j + 1),
                    &transcript, &got);
                return Ok(out);
            }
            transcript.push(J::s(format!("saw {} bytes of output (everything said before listen #{})", need, j + 1)));
            if fault == StdoutFault::ClosedAtListen(j) {
                let _ = tx.send(Cmd::Close);
                let _ = rx.recv_timeout(PATIENCE);
                stdout_closed = true;
                transcript.push(J::s("shut down the peer's end of the program's standard output"));
            }
        }
        // answer the listen
        if let Some(pipe) = stdin.as_mut() {
            if next_piece < parts.len() {
                let _ = pipe.write_all(parts[next_piece]);
                let _ = pipe.flush();
                transcript.push(J::s(format!("answered listen #{} with {:?}", j + 1, String::from_utf8_lossy(parts[next_piece]))));
                next_piece += 1;
                if next_piece == parts.len() && parts[next_piece - 1].last() != Some(&b'\n') {
                    // an unterminated last line is only complete at end of input
                    stdin = None;
                    transcript.push(J::s("closed standard input (end of input)"));
                }
            } else {
                stdin = None;
                transcript.push(J::s(format!("answered listen #{} with end of input", j + 1)));
            }
        }
        if stdout_closed && fault != StdoutFault::DevFull {
            break; // the next say must fail; nothing more is offered
        }
        if fault == StdoutFault::DevFull && exp.listen_marks[j] > 0 {
            break; // a say before this listen already met the full device
        }
    }

    if fault == StdoutFault::None {
        // no more listens: the rest of the output, then the exit
        stdin = None;
        drop(stdin);
        let (tx, rx) = reader.as_ref().unwrap();
        let _ = tx.send(Cmd::ReadToEnd);
        match await_reply(rx, pid) {
            Some(Reply::Data(bytes, _)) => got = bytes,
            _ => {
                let w = where_blocked(pid);
                finish(&mut child, &mut out, "C08.X1-process-say-before-listen",
                    format!("the program did not finish after its last listen was answered (program state: {})", w),
                    &transcript, &got);
                return Ok(out);
            }
        }
        let status = match wait_exit(&mut child, PATIENCE) {
            Some(s) => s,
            None => {
                finish(&mut child, &mut out, "C08.X1-process-say-before-listen", "the program closed its standard output but did not exit".into(), &transcript, &got);
                return Ok(out);
            }
        };
        let stderr = strip_sgr(&std::fs::read(&err_path).unwrap_or_default());
        if got != exp.out {
            finish(&mut child, &mut out, "C08.X2-process-output-content",
                format!("standard output ({} bytes) differs from the expected output ({} bytes)", got.len(), exp.out.len()),
                &transcript, &got);
            return Ok(out);
        }
        let reports_error = crate::procworld::contains(&stderr.to_ascii_lowercase(), b"runtime error");
        if (exp.outcome == Outcome::Die) != reports_error {
            finish(&mut child, &mut out, "C08.X2-process-output-content",
                format!("expected outcome {:?} but standard error {} a runtime error (exit status {:?})", exp.outcome, if reports_error { "reports" } else { "does not report" }, status.code()),
                &transcript, &got);
            return Ok(out);
        }
        return Ok(out);
    }

    // standard output has failed: the program must stop with a runtime error
    // without needing anything more from the peer (stdin stays open and silent)
    out.stdout_fault_fired = true;
    let exited = wait_exit_or_blocked(&mut child, pid);
    let stderr = strip_sgr(&std::fs::read(&err_path).unwrap_or_default());
    match exited {
        None => {
            let w = where_blocked(pid);
            finish(&mut child, &mut out, "C08.X3-process-stdout-fault-is-error",
                format!("standard output failed ({:?}) before a say, but the program kept running (program state: {})", fault, w),
                &transcript, &got);
        }
        Some(_) => {
            if !crate::procworld::contains(&stderr.to_ascii_lowercase(), b"runtime error") {
                finish(&mut child, &mut out, "C08.X3-process-stdout-fault-is-error",
                    format!("standard output failed ({:?}) before a say, but no runtime error was reported on standard error", fault),
                    &transcript, &got);
            }
        }
    }
    drop(stdin);
    Ok(out)
}

/// Standard input that cannot be read at all (a directory: read(2) fails with
/// EISDIR): the first listen must end the run with a runtime error, with
/// everything said before it on standard output and nothing after.
pub fn run_unreadable_stdin(
    sc: &Scenario,
    exp: &Expect,
    scratch: &Scratch,
) -> Result<ProcOutcome, String> {
    crate::driver::heartbeat();
    let file = scratch
        .file("peer.rock", sc.source.as_bytes())
        .map_err(|e| e.to_string())?;
    let out_path = scratch.path.join("unreadable.out");
    let err_path = scratch.path.join("unreadable.err");
    let dir = std::fs::File::open(&scratch.path).map_err(|e| e.to_string())?;
    let mut cmd = Command::new(rrss_bin());
    cmd.arg("exec")
        .arg(&file)
        .env_clear()
        .env("RRSS_VERIF_HASH_SEED", "0")
        .current_dir(&scratch.path)
        .stdin(Stdio::from(dir))
        .stdout(Stdio::from(std::fs::File::create(&out_path).map_err(|e| e.to_string())?))
        .stderr(Stdio::from(std::fs::File::create(&err_path).map_err(|e| e.to_string())?));
    let mut child = {
        let _guard = crate::procworld::SPAWN_LOCK
            .lock()
            .unwrap_or_else(|e| e.into_inner());
        cmd.spawn().map_err(|e| format!("cannot spawn rrss: {}", e))?
    };
    drop(cmd);
    let mut out = ProcOutcome {
        violation: None,
        spawns: 1,
        stdout_fault_fired: true,
    };
    let exited = wait_exit(&mut child, PATIENCE);
    if exited.is_none() {
        let _ = child.kill();
        let _ = child.wait();
    }
    let stdout = std::fs::read(&out_path).unwrap_or_default();
    let stderr = strip_sgr(&std::fs::read(&err_path).unwrap_or_default());
    let want = &exp.out[..exp.listen_marks[0]];
    let problem = if exited.is_none() {
        Some("the program did not exit".to_string())
    } else if stdout != want {
        Some(format!(
            "standard output is {} bytes, expected exactly the {} bytes said before the first listen",
            stdout.len(),
            want.len()
        ))
    } else if !crate::procworld::contains(&stderr.to_ascii_lowercase(), b"runtime error") {
        Some("no runtime error was reported on standard error".to_string())
    } else {
        None
    };
    if let Some(detail) = problem {
        out.violation = Some((
            "C08.X4-process-stdin-fault-is-error",
            format!("standard input cannot be read (it is a directory), but {}", detail),
            J::obj(vec![
                ("arm", J::s("process: real `rrss exec` with standard input that fails on every read")),
                ("program", J::s(sc.source.clone())),
                ("expected_output_before_first_listen", J::S(render_bytes(want))),
                ("stdout", J::S(render_bytes(&stdout))),
                ("stderr", J::S(render_bytes(&stderr))),
            ]),
        ));
    }
    Ok(out)
}
