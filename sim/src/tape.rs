//! Choice tape: every decision of a scenario is drawn through it. The first
//! time the values come from the PRNG; afterwards the recorded values are
//! replayed verbatim. A replay file is a tape; shrinking edits a tape.
//!
//! Decoders are written so that smaller values mean simpler things (0 = the
//! plainest option), which is what makes generic tape shrinking effective.

use crate::rng::Rng;

pub struct Tape {
    rng: Option<Rng>,
    stored: Vec<u32>,
    pos: usize,
    /// Values actually returned (normalised to their ranges): the canonical
    /// tape of this run.
    out: Vec<u32>,
    limit: usize,
    /// (start, end, index of the count draw) of repeated sub-structures, so
    /// that the shrinker can delete one element and decrement its count
    spans: Vec<(usize, usize, usize)>,
}

impl Tape {
    pub fn record(seed: u64) -> Self {
        Self {
            rng: Some(Rng::new(seed)),
            stored: Vec::new(),
            pos: 0,
            out: Vec::new(),
            limit: 1 << 20,
            spans: Vec::new(),
        }
    }

    pub fn replay(stored: Vec<u32>) -> Self {
        Self {
            rng: None,
            stored,
            pos: 0,
            out: Vec::new(),
            limit: 1 << 20,
            spans: Vec::new(),
        }
    }

    /// Uniform value in 0..n (n >= 1).
    pub fn draw(&mut self, n: u32) -> u32 {
        assert!(n >= 1);
        assert!(self.out.len() < self.limit, "choice tape overrun");
        let v = match &mut self.rng {
            Some(rng) => rng.below(n),
            None => {
                let v = self.stored.get(self.pos).copied().unwrap_or(0);
                self.pos += 1;
                v % n
            }
        };
        self.out.push(v);
        v
    }

    /// True with probability num/den; `false` is the small (simple) value.
    pub fn chance(&mut self, num: u32, den: u32) -> bool {
        debug_assert!(num <= den);
        if num == 0 {
            return false;
        }
        self.draw(den) >= den - num
    }

    /// Inclusive range; `lo` is the simple value.
    pub fn range(&mut self, lo: u32, hi: u32) -> u32 {
        debug_assert!(lo <= hi);
        lo + self.draw(hi - lo + 1)
    }

    pub fn pick<'a, T>(&mut self, xs: &'a [T]) -> &'a T {
        &xs[self.draw(xs.len() as u32) as usize]
    }

    /// Index chosen with the given weights; index 0 is the simple value.
    pub fn weighted(&mut self, weights: &[u32]) -> usize {
        let total: u32 = weights.iter().sum();
        let mut v = self.draw(total);
        for (i, w) in weights.iter().enumerate() {
            if v < *w {
                return i;
            }
            v -= *w;
        }
        unreachable!()
    }

    /// A 64-bit value (two entries), e.g. a sub-seed for a per-call schedule.
    pub fn seed64(&mut self) -> u64 {
        let hi = self.draw(u32::MAX) as u64;
        let lo = self.draw(u32::MAX) as u64;
        (hi << 32) | lo
    }

    /// Position of the next draw (in the canonical tape).
    pub fn pos(&self) -> usize {
        self.out.len()
    }

    /// Records that draws [start, pos) generated one element of a sequence
    /// whose length was drawn at index `count_at`.
    pub fn element(&mut self, start: usize, count_at: usize) {
        let end = self.out.len();
        if end > start {
            self.spans.push((start, end, count_at));
        }
    }

    pub fn into_canonical(self) -> Vec<u32> {
        self.out
    }

    pub fn into_parts(self) -> (Vec<u32>, Vec<(usize, usize, usize)>) {
        (self.out, self.spans)
    }
}

/// Generic tape shrinking. `fails(tape)` runs the scenario on a candidate
/// tape and returns the canonical tape of that run if the *same* violation
/// (same oracle rule) occurred. Bounded by `budget` scenario executions.
pub type Spans = Vec<(usize, usize, usize)>;

pub fn shrink<F>(start: Vec<u32>, start_spans: Spans, budget: usize, mut fails: F) -> (Vec<u32>, usize)
where
    F: FnMut(&[u32]) -> Option<(Vec<u32>, Spans)>,
{
    let mut best = start;
    let mut spans = start_spans;
    let mut used = 0usize;
    let mut try_candidate =
        |cand: &[u32], best: &mut Vec<u32>, spans: &mut Spans, used: &mut usize| -> bool {
            if *used >= budget {
                return false;
            }
            *used += 1;
            match fails(cand) {
                Some((canon, sp)) => {
                    if tape_less(&canon, best) {
                        *best = canon;
                        *spans = sp;
                        true
                    } else {
                        false
                    }
                }
                None => false,
            }
        };
    loop {
        let before = best.clone();
        // 0. structural: delete one element of a sequence and decrement the
        // drawn length of that sequence (largest elements first)
        let mut progress = true;
        while progress && used < budget {
            progress = false;
            let mut order: Vec<(usize, usize, usize)> = spans.clone();
            order.sort_by_key(|(s, e, _)| std::cmp::Reverse(e - s));
            for (s, e, c) in order {
                if e > best.len() || c >= s || best[c] == 0 {
                    continue;
                }
                let mut cand = best.clone();
                cand[c] -= 1;
                cand.drain(s..e);
                if try_candidate(&cand, &mut best, &mut spans, &mut used) {
                    progress = true;
                    break;
                }
                if used >= budget {
                    break;
                }
            }
        }
        // 1. delete spans
        let mut size = (best.len() / 2).max(1);
        loop {
            let mut i = best.len();
            while i > 0 && used < budget {
                let start = i.saturating_sub(size);
                if start < best.len() {
                    let end = (start + size).min(best.len());
                    let mut cand = best.clone();
                    cand.drain(start..end);
                    try_candidate(&cand, &mut best, &mut spans, &mut used);
                }
                i = start;
            }
            if size == 1 {
                break;
            }
            size /= 2;
        }
        // 2. zero entries, 3. lower entries
        let mut i = 0;
        while i < best.len() && used < budget {
            if best[i] != 0 {
                let mut cand = best.clone();
                cand[i] = 0;
                if !try_candidate(&cand, &mut best, &mut spans, &mut used) && i < best.len() && best[i] > 1 {
                    let mut cand = best.clone();
                    cand[i] = best[i] / 2;
                    if !try_candidate(&cand, &mut best, &mut spans, &mut used) && i < best.len() {
                        let mut cand = best.clone();
                        cand[i] = best[i] - 1;
                        try_candidate(&cand, &mut best, &mut spans, &mut used);
                    }
                }
            }
            i += 1;
        }
        if best == before || used >= budget {
            break;
        }
    }
    (best, used)
}

/// Shortlex order: shorter tapes are simpler; equal length compares entries.
fn tape_less(a: &[u32], b: &[u32]) -> bool {
    if a.len() != b.len() {
        return a.len() < b.len();
    }
    a < b
}
