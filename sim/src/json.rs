//! Minimal JSON value, writer and parser (no third-party dependency).

use std::fmt::Write;

#[derive(Clone, Debug, PartialEq)]
pub enum J {
    Null,
    Bool(bool),
    U(u64),
    I(i64),
    F(f64),
    S(String),
    A(Vec<J>),
    O(Vec<(String, J)>),
}

impl J {
    pub fn s(x: impl Into<String>) -> J {
        J::S(x.into())
    }
    pub fn obj(fields: Vec<(&str, J)>) -> J {
        J::O(fields.into_iter().map(|(k, v)| (k.to_string(), v)).collect())
    }
    pub fn bytes(b: &[u8]) -> J {
        // printable rendering of a byte string: lossless for valid UTF-8
        // without control characters, escaped otherwise.
        J::S(render_bytes(b))
    }
    pub fn get(&self, key: &str) -> Option<&J> {
        match self {
            J::O(fields) => fields.iter().find(|(k, _)| k == key).map(|(_, v)| v),
            _ => None,
        }
    }
    pub fn as_str(&self) -> Option<&str> {
        match self {
            J::S(s) => Some(s),
            _ => None,
        }
    }
    pub fn as_u64(&self) -> Option<u64> {
        match self {
            J::U(u) => Some(*u),
            J::I(i) if *i >= 0 => Some(*i as u64),
            _ => None,
        }
    }
    pub fn as_arr(&self) -> Option<&[J]> {
        match self {
            J::A(a) => Some(a),
            _ => None,
        }
    }

    pub fn pretty(&self) -> String {
        let mut s = String::new();
        self.write(&mut s, 0, true);
        s.push('\n');
        s
    }

    pub fn compact(&self) -> String {
        let mut s = String::new();
        self.write(&mut s, 0, false);
        s
    }

    fn write(&self, out: &mut String, indent: usize, pretty: bool) {
        match self {
            J::Null => out.push_str("null"),
            J::Bool(b) => out.push_str(if *b { "true" } else { "false" }),
            J::U(u) => write!(out, "{}", u).unwrap(),
            J::I(i) => write!(out, "{}", i).unwrap(),
            J::F(f) => {
                if f.is_finite() {
                    let s = format!("{}", f);
                    out.push_str(&s);
                    if !s.contains('.') && !s.contains('e') {
                        out.push_str(".0");
                    }
                } else {
                    out.push_str("null")
                }
            }
            J::S(s) => write_str(out, s),
            J::A(items) => {
                let simple = items
                    .iter()
                    .all(|i| matches!(i, J::U(_) | J::I(_) | J::F(_) | J::Bool(_) | J::Null));
                if items.is_empty() {
                    out.push_str("[]");
                } else if !pretty || simple {
                    out.push('[');
                    for (n, i) in items.iter().enumerate() {
                        if n > 0 {
                            out.push_str(if pretty { ", " } else { "," });
                        }
                        i.write(out, indent, pretty);
                    }
                    out.push(']');
                } else {
                    out.push_str("[\n");
                    for (n, i) in items.iter().enumerate() {
                        pad(out, indent + 1);
                        i.write(out, indent + 1, pretty);
                        if n + 1 < items.len() {
                            out.push(',');
                        }
                        out.push('\n');
                    }
                    pad(out, indent);
                    out.push(']');
                }
            }
            J::O(fields) => {
                if fields.is_empty() {
                    out.push_str("{}");
                } else if !pretty {
                    out.push('{');
                    for (n, (k, v)) in fields.iter().enumerate() {
                        if n > 0 {
                            out.push(',');
                        }
                        write_str(out, k);
                        out.push(':');
                        v.write(out, indent, pretty);
                    }
                    out.push('}');
                } else {
                    out.push_str("{\n");
                    for (n, (k, v)) in fields.iter().enumerate() {
                        pad(out, indent + 1);
                        write_str(out, k);
                        out.push_str(": ");
                        v.write(out, indent + 1, pretty);
                        if n + 1 < fields.len() {
                            out.push(',');
                        }
                        out.push('\n');
                    }
                    pad(out, indent);
                    out.push('}');
                }
            }
        }
    }
}

fn pad(out: &mut String, n: usize) {
    for _ in 0..n {
        out.push(' ');
    }
}

fn write_str(out: &mut String, s: &str) {
    out.push('"');
    for c in s.chars() {
        match c {
            '"' => out.push_str("\\\""),
            '\\' => out.push_str("\\\\"),
            '\n' => out.push_str("\\n"),
            '\r' => out.push_str("\\r"),
            '\t' => out.push_str("\\t"),
            c if (c as u32) < 0x20 || c == '\u{7f}' => write!(out, "\\u{:04x}", c as u32).unwrap(),
            c => out.push(c),
        }
    }
    out.push('"');
}

/// Human-readable rendering of arbitrary bytes: valid UTF-8 passes through,
/// invalid bytes become `\xNN`, a literal backslash becomes `\\`.
pub fn render_bytes(b: &[u8]) -> String {
    let mut out = String::new();
    let mut rest = b;
    while !rest.is_empty() {
        match std::str::from_utf8(rest) {
            Ok(s) => {
                push_escaped(&mut out, s);
                break;
            }
            Err(e) => {
                let (good, bad) = rest.split_at(e.valid_up_to());
                push_escaped(&mut out, std::str::from_utf8(good).unwrap());
                let n = e.error_len().unwrap_or(bad.len());
                for x in &bad[..n] {
                    write!(out, "\\x{:02x}", x).unwrap();
                }
                rest = &bad[n..];
            }
        }
    }
    out
}

fn push_escaped(out: &mut String, s: &str) {
    for c in s.chars() {
        if c == '\\' {
            out.push_str("\\\\");
        } else {
            out.push(c);
        }
    }
}

// ---------------------------------------------------------------- parser

pub fn parse(text: &str) -> Result<J, String> {
    let mut p = P {
        b: text.as_bytes(),
        i: 0,
    };
    p.ws();
    let v = p.value()?;
    p.ws();
    if p.i != p.b.len() {
        return Err(format!("trailing data at byte {}", p.i));
    }
    Ok(v)
}

struct P<'a> {
    b: &'a [u8],
    i: usize,
}

impl<'a> P<'a> {
    fn ws(&mut self) {
        while self.i < self.b.len() && matches!(self.b[self.i], b' ' | b'\n' | b'\r' | b'\t') {
            self.i += 1;
        }
    }
    fn eat(&mut self, c: u8) -> Result<(), String> {
        if self.b.get(self.i) == Some(&c) {
            self.i += 1;
            Ok(())
        } else {
            Err(format!("expected '{}' at byte {}", c as char, self.i))
        }
    }
    fn value(&mut self) -> Result<J, String> {
        match self.b.get(self.i) {
            None => Err("unexpected end".into()),
            Some(b'{') => {
                self.i += 1;
                let mut fields = Vec::new();
                self.ws();
                if self.b.get(self.i) == Some(&b'}') {
                    self.i += 1;
                    return Ok(J::O(fields));
                }
                loop {
                    self.ws();
                    let k = self.string()?;
                    self.ws();
                    self.eat(b':')?;
                    self.ws();
                    let v = self.value()?;
                    fields.push((k, v));
                    self.ws();
                    match self.b.get(self.i) {
                        Some(b',') => self.i += 1,
                        Some(b'}') => {
                            self.i += 1;
                            return Ok(J::O(fields));
                        }
                        _ => return Err(format!("expected , or }} at byte {}", self.i)),
                    }
                }
            }
            Some(b'[') => {
                self.i += 1;
                let mut items = Vec::new();
                self.ws();
                if self.b.get(self.i) == Some(&b']') {
                    self.i += 1;
                    return Ok(J::A(items));
                }
                loop {
                    self.ws();
                    items.push(self.value()?);
                    self.ws();
                    match self.b.get(self.i) {
                        Some(b',') => self.i += 1,
                        Some(b']') => {
                            self.i += 1;
                            return Ok(J::A(items));
                        }
                        _ => return Err(format!("expected , or ] at byte {}", self.i)),
                    }
                }
            }
            Some(b'"') => Ok(J::S(self.string()?)),
            Some(b't') => self.lit("true", J::Bool(true)),
            Some(b'f') => self.lit("false", J::Bool(false)),
            Some(b'n') => self.lit("null", J::Null),
            Some(_) => self.number(),
        }
    }
    fn lit(&mut self, word: &str, v: J) -> Result<J, String> {
        if self.b[self.i..].starts_with(word.as_bytes()) {
            self.i += word.len();
            Ok(v)
        } else {
            Err(format!("bad literal at byte {}", self.i))
        }
    }
    fn number(&mut self) -> Result<J, String> {
        let start = self.i;
        while self.i < self.b.len()
            && matches!(self.b[self.i], b'0'..=b'9' | b'-' | b'+' | b'.' | b'e' | b'E')
        {
            self.i += 1;
        }
        let s = std::str::from_utf8(&self.b[start..self.i]).unwrap();
        if let Ok(u) = s.parse::<u64>() {
            Ok(J::U(u))
        } else if let Ok(i) = s.parse::<i64>() {
            Ok(J::I(i))
        } else {
            s.parse::<f64>()
                .map(J::F)
                .map_err(|_| format!("bad number '{}' at byte {}", s, start))
        }
    }
    fn string(&mut self) -> Result<String, String> {
        self.eat(b'"')?;
        let mut out = Vec::new();
        loop {
            match self.b.get(self.i) {
                None => return Err("unterminated string".into()),
                Some(b'"') => {
                    self.i += 1;
                    return String::from_utf8(out).map_err(|e| e.to_string());
                }
                Some(b'\\') => {
                    self.i += 1;
                    match self.b.get(self.i) {
                        Some(b'n') => out.push(b'\n'),
                        Some(b'r') => out.push(b'\r'),
                        Some(b't') => out.push(b'\t'),
                        Some(b'b') => out.push(8),
                        Some(b'f') => out.push(12),
                        Some(b'/') => out.push(b'/'),
                        Some(b'\\') => out.push(b'\\'),
                        Some(b'"') => out.push(b'"'),
                        Some(b'u') => {
                            let hex = std::str::from_utf8(
                                self.b.get(self.i + 1..self.i + 5).ok_or("short \\u")?,
                            )
                            .map_err(|e| e.to_string())?;
                            let cp = u32::from_str_radix(hex, 16).map_err(|e| e.to_string())?;
                            let c = char::from_u32(cp).unwrap_or('\u{fffd}');
                            let mut buf = [0u8; 4];
                            out.extend_from_slice(c.encode_utf8(&mut buf).as_bytes());
                            self.i += 4;
                        }
                        _ => return Err(format!("bad escape at byte {}", self.i)),
                    }
                    self.i += 1;
                }
                Some(c) => {
                    out.push(*c);
                    self.i += 1;
                }
            }
        }
    }
}
