//! I/O script IR for C08 (also reused by C10/C20 as a program source), with
//! a reference evaluator ("model") that unrolls a script against an input
//! into the expected output bytes, the output length before every executed
//! listen, and the expected outcome.

use std::collections::BTreeMap;

pub type VarId = usize;

#[derive(Clone, Debug, PartialEq)]
pub enum Key {
    Num(u32),
    Str(String),
}

#[derive(Clone, Debug, PartialEq)]
pub enum VarRef {
    Plain(VarId),
    At(VarId, Key),
}

impl VarRef {
    pub fn var(&self) -> VarId {
        match self {
            VarRef::Plain(v) | VarRef::At(v, _) => *v,
        }
    }
}

#[derive(Clone, Debug, PartialEq)]
pub enum Const {
    /// a number literal already in canonical form (e.g. 0.125, 1000000)
    Canonical(&'static str),
    /// (source spelling, canonical text) of a number whose canonical text
    /// differs from its spelling (negative zero, more digits than a double
    /// holds, leading zeros, trailing ".0")
    Spelled(&'static str, &'static str),
    Int(i64),
    Half(i64), // n + 0.5
    True,
    False,
    Null,
    Mysterious,
    Empty,
}

#[derive(Clone, Debug, PartialEq)]
pub enum Arg {
    Lit(String),
    Int(i64),
    Var(VarId),
    /// a call in argument position (only ever the last argument: a call
    /// takes every argument that follows it)
    Call(usize, Vec<Arg>),
}

#[derive(Clone, Debug, PartialEq)]
pub enum Cond {
    Const(bool),
    CounterIs(VarId, i64),
    CounterLess(VarId, i64),
    VarIsEmpty(VarId),
    VarNotEmpty(VarId),
}

#[derive(Clone, Debug, PartialEq)]
pub enum Ret {
    Var(VarId),
    Lit(String),
    Concat(String, VarId),
}

#[derive(Clone, Copy, Debug, PartialEq)]
pub enum DieKind {
    IncString,
    UndefinedVar,
    WrongArgCount(usize),
    PopString,
}

#[derive(Clone, Debug, PartialEq)]
pub enum Op {
    SayLit(String),
    SayConst(Const),
    SayVar(VarRef),
    /// `say it` directly after `listen to <plain var>` (pronoun = that var)
    SayIt(VarId),
    /// `listen to it` directly after `say <plain var>` (pronoun = that var)
    ListenIt(VarId),
    SayConcat(String, VarId),
    /// `say C plus k` / `minus` / `times` on a loop counter (a number)
    SayArith(VarId, u8, i64),
    /// `say <condition>`: prints true or false
    SayCond(Cond),
    /// `cut X into Bits` then `say Bits`: the number of characters of X
    SayLength(VarId),
    Listen(Option<VarRef>),
    AssignLit(VarRef, String),
    AssignInt(VarId, i64),
    Repeat {
        counter: VarId,
        n: i64,
        body: Vec<Op>,
    },
    /// listen to L; until L is empty { body; listen to L }
    ListenLoop {
        line: VarId,
        body: Vec<Op>,
    },
    /// while true { listen to L; if L is empty break; body }
    ListenLoopBreak {
        line: VarId,
        body: Vec<Op>,
    },
    If {
        cond: Cond,
        then: Vec<Op>,
        els: Option<Vec<Op>>,
    },
    Break,
    Continue,
    CallStmt(usize, Vec<Arg>),
    SayCall(usize, Vec<Arg>),
    AssignCall(VarRef, usize, Vec<Arg>),
    Return(Ret),
    Filler(u32),
    Die(DieKind),
}

#[derive(Clone, Debug, PartialEq)]
pub struct Func {
    pub name: VarId,
    pub params: Vec<VarId>,
    /// string locals initialised at the top of the body
    pub locals: Vec<VarId>,
    pub body: Vec<Op>,
}

#[derive(Clone, Copy, Debug, PartialEq)]
pub enum VarKind {
    Str,
    Counter,
    Array,
    Func,
    Param,
}

#[derive(Clone, Debug, PartialEq)]
pub struct Script {
    /// rendered name and kind of every variable
    pub vars: Vec<(String, VarKind)>,
    pub funcs: Vec<Func>,
    pub main: Vec<Op>,
}

// ------------------------------------------------------------------ model

#[derive(Clone, Debug, PartialEq)]
pub enum V {
    Str(String),
    Num(i64),
    Undef,
    Arr {
        items: BTreeMap<u32, String>,
        keyed: BTreeMap<String, String>,
    },
}

impl V {
    fn text(&self) -> String {
        match self {
            V::Str(s) => s.clone(),
            V::Num(n) => n.to_string(),
            V::Undef => "mysterious".to_string(),
            V::Arr { items, .. } => items
                .keys()
                .next_back()
                .map_or(0, |k| k + 1)
                .to_string(),
        }
    }
}

#[derive(Clone, Debug, PartialEq, Eq)]
pub enum Outcome {
    Ok,
    /// a statement that raises a non-I/O runtime error was reached
    Die,
    /// a listen hit an input line that is not valid UTF-8 (torn / flipped
    /// byte); the property does not say what happens then
    Damaged,
}

#[derive(Clone, Debug)]
pub struct Expect {
    pub out: Vec<u8>,
    /// output length before each executed listen, in execution order
    pub listen_marks: Vec<usize>,
    /// (start, end) of every say in `out`
    pub says: Vec<(usize, usize)>,
    pub outcome: Outcome,
    pub steps: usize,
    pub runaway: bool,
    pub listens_past_eof: usize,
    pub empty_says: usize,
    pub io_in_call_in_say: bool,
}

enum Flow {
    Normal,
    Break,
    Continue,
    Return(V),
    Stop,
}

struct Model<'a> {
    script: &'a Script,
    input: &'a [u8],
    pos: usize,
    env: BTreeMap<VarId, V>,
    e: Expect,
    in_say_call: u32,
}

const STEP_LIMIT: usize = 40_000;
const EVENT_LIMIT: usize = 6_000;

pub fn init_literal(v: VarId) -> String {
    format!("init-{}", v)
}

pub fn expect(script: &Script, input: &[u8]) -> Expect {
    let mut m = Model {
        script,
        input,
        pos: 0,
        env: BTreeMap::new(),
        e: Expect {
            out: Vec::new(),
            listen_marks: Vec::new(),
            says: Vec::new(),
            outcome: Outcome::Ok,
            steps: 0,
            runaway: false,
            listens_past_eof: 0,
            empty_says: 0,
            io_in_call_in_say: false,
        },
        in_say_call: 0,
    };
    // top-of-program initialisation (mirrors the renderer's preamble)
    for (id, (_, kind)) in script.vars.iter().enumerate() {
        match kind {
            VarKind::Str => {
                m.env.insert(id, V::Str(init_literal(id)));
            }
            VarKind::Counter => {
                m.env.insert(id, V::Num(0));
            }
            VarKind::Array => {
                let mut items = BTreeMap::new();
                items.insert(0, init_literal(id));
                m.env.insert(
                    id,
                    V::Arr {
                        items,
                        keyed: BTreeMap::new(),
                    },
                );
            }
            VarKind::Func | VarKind::Param => {}
        }
    }
    // function locals are (re)initialised at each call; they are Str vars
    // owned by the function and are skipped above only if listed as locals.
    let main = script.main.clone();
    m.block(&main);
    m.e
}

impl<'a> Model<'a> {
    fn say(&mut self, text: &str) {
        let start = self.e.out.len();
        self.e.out.extend_from_slice(text.as_bytes());
        self.e.out.push(b'\n');
        self.e.says.push((start, self.e.out.len()));
        if text.is_empty() {
            self.e.empty_says += 1;
        }
        if self.in_say_call > 0 {
            self.e.io_in_call_in_say = true;
        }
    }

    /// None = the line is not valid UTF-8
    fn listen(&mut self) -> Option<String> {
        self.e.listen_marks.push(self.e.out.len());
        if self.in_say_call > 0 {
            self.e.io_in_call_in_say = true;
        }
        if self.pos >= self.input.len() {
            self.e.listens_past_eof += 1;
            return Some(String::new());
        }
        let rest = &self.input[self.pos..];
        let (line, adv) = match rest.iter().position(|b| *b == b'\n') {
            Some(p) => (&rest[..p], p + 1),
            None => (rest, rest.len()),
        };
        self.pos += adv;
        match std::str::from_utf8(line) {
            Ok(s) => Some(s.to_string()),
            Err(_) => None,
        }
    }

    fn get(&self, r: &VarRef) -> V {
        match r {
            VarRef::Plain(v) => self.env.get(v).cloned().unwrap_or(V::Undef),
            VarRef::At(v, k) => match self.env.get(v) {
                Some(V::Arr { items, keyed }) => match k {
                    Key::Num(n) => items.get(n).cloned().map_or(V::Undef, V::Str),
                    Key::Str(s) => keyed.get(s).cloned().map_or(V::Undef, V::Str),
                },
                _ => V::Undef,
            },
        }
    }

    fn set(&mut self, r: &VarRef, val: String) {
        match r {
            VarRef::Plain(v) => {
                self.env.insert(*v, V::Str(val));
            }
            VarRef::At(v, k) => {
                let entry = self.env.entry(*v).or_insert(V::Arr {
                    items: BTreeMap::new(),
                    keyed: BTreeMap::new(),
                });
                if let V::Arr { items, keyed } = entry {
                    match k {
                        Key::Num(n) => {
                            // writing index n materialises 0..n as mysterious;
                            // only the length is observable here
                            items.insert(*n, val);
                        }
                        Key::Str(s) => {
                            keyed.insert(s.clone(), val);
                        }
                    }
                }
            }
        }
    }

    fn cond(&self, c: &Cond) -> bool {
        match c {
            Cond::Const(b) => *b,
            Cond::CounterIs(v, k) => matches!(self.env.get(v), Some(V::Num(n)) if n == k),
            Cond::CounterLess(v, k) => matches!(self.env.get(v), Some(V::Num(n)) if n < k),
            Cond::VarIsEmpty(v) => matches!(self.env.get(v), Some(V::Str(s)) if s.is_empty()),
            Cond::VarNotEmpty(v) => !matches!(self.env.get(v), Some(V::Str(s)) if s.is_empty()),
        }
    }

    /// None if execution stopped inside a call in argument position
    fn arg(&mut self, a: &Arg) -> Option<V> {
        match a {
            Arg::Lit(s) => Some(V::Str(s.clone())),
            Arg::Int(n) => Some(V::Num(*n)),
            Arg::Var(v) => Some(self.env.get(v).cloned().unwrap_or(V::Undef)),
            Arg::Call(f, args) => self.call(*f, args),
        }
    }

    /// Some(value) on normal completion, None if execution stopped inside.
    fn call(&mut self, f: usize, args: &[Arg]) -> Option<V> {
        let func = self.script.funcs[f].clone();
        if args.len() != func.params.len() {
            self.e.outcome = Outcome::Die;
            return None;
        }
        // arguments are evaluated left to right, before the body runs
        let mut vals: Vec<V> = Vec::new();
        for a in args {
            match self.arg(a) {
                Some(v) => vals.push(v),
                None => return None,
            }
        }
        for (p, v) in func.params.iter().zip(vals) {
            self.env.insert(*p, v);
        }
        for l in &func.locals {
            self.env.insert(*l, V::Str(init_literal(*l)));
        }
        match self.block(&func.body) {
            Flow::Return(v) => Some(v),
            Flow::Stop => None,
            _ => Some(V::Undef),
        }
    }

    fn block(&mut self, ops: &[Op]) -> Flow {
        for op in ops {
            self.e.steps += 1;
            if self.e.steps > STEP_LIMIT
                || self.e.says.len() + self.e.listen_marks.len() > EVENT_LIMIT
            {
                self.e.runaway = true;
                return Flow::Stop;
            }
            match op {
                Op::SayLit(s) => self.say(s),
                Op::SayConst(c) => {
                    let t = match c {
                        Const::Canonical(s) => s.to_string(),
                        Const::Spelled(_, canonical) => canonical.to_string(),
                        Const::Int(n) => n.to_string(),
                        Const::Half(n) => {
                            if *n < 0 {
                                format!("{}.5", n) // n - 0.5 for negatives: see renderer
                            } else {
                                format!("{}.5", n)
                            }
                        }
                        Const::True => "true".into(),
                        Const::False => "false".into(),
                        Const::Null => "null".into(),
                        Const::Mysterious => "mysterious".into(),
                        Const::Empty => String::new(),
                    };
                    self.say(&t)
                }
                Op::SayVar(r) => {
                    let t = self.get(r).text();
                    self.say(&t)
                }
                Op::SayIt(v) => {
                    let t = self.get(&VarRef::Plain(*v)).text();
                    self.say(&t)
                }
                Op::SayConcat(lit, v) => {
                    let t = format!("{}{}", lit, self.get(&VarRef::Plain(*v)).text());
                    self.say(&t)
                }
                Op::SayArith(c, op, k) => {
                    let n = match self.env.get(c) {
                        Some(V::Num(n)) => *n,
                        _ => 0,
                    };
                    let r = match op % 3 {
                        0 => n + k,
                        1 => n - k,
                        _ => n * k,
                    };
                    self.say(&r.to_string())
                }
                Op::SayCond(c) => {
                    let t = if self.cond(c) { "true" } else { "false" };
                    self.say(t)
                }
                Op::SayLength(v) => {
                    let n = match self.env.get(v) {
                        Some(V::Str(s)) => s.chars().count(),
                        _ => {
                            // only strings can be cut: a runtime error
                            self.e.outcome = Outcome::Die;
                            return Flow::Stop;
                        }
                    };
                    self.say(&n.to_string())
                }
                Op::Listen(dest) => match self.listen() {
                    Some(line) => {
                        if let Some(d) = dest {
                            self.set(d, line)
                        }
                    }
                    None => {
                        self.e.outcome = Outcome::Damaged;
                        return Flow::Stop;
                    }
                },
                Op::ListenIt(v) => match self.listen() {
                    Some(line) => self.set(&VarRef::Plain(*v), line),
                    None => {
                        self.e.outcome = Outcome::Damaged;
                        return Flow::Stop;
                    }
                },
                Op::AssignLit(r, s) => self.set(r, s.clone()),
                Op::AssignInt(v, n) => {
                    self.env.insert(*v, V::Num(*n));
                }
                Op::Repeat { counter, n, body } => {
                    self.env.insert(*counter, V::Num(0));
                    loop {
                        let c = match self.env.get(counter) {
                            Some(V::Num(c)) => *c,
                            _ => 0,
                        };
                        if c >= *n {
                            break;
                        }
                        self.env.insert(*counter, V::Num(c + 1));
                        match self.block(body) {
                            Flow::Normal | Flow::Continue => {}
                            Flow::Break => break,
                            f @ Flow::Return(_) => return f,
                            Flow::Stop => return Flow::Stop,
                        }
                        self.e.steps += 1;
                        if self.e.steps > STEP_LIMIT {
                            self.e.runaway = true;
                            return Flow::Stop;
                        }
                    }
                }
                Op::ListenLoop { line, body } => {
                    match self.listen() {
                        Some(l) => self.set(&VarRef::Plain(*line), l),
                        None => {
                            self.e.outcome = Outcome::Damaged;
                            return Flow::Stop;
                        }
                    }
                    loop {
                        if self.cond(&Cond::VarIsEmpty(*line)) {
                            break;
                        }
                        match self.block(body) {
                            Flow::Normal => {}
                            Flow::Continue => unreachable!("continue is not generated here"),
                            Flow::Break => break,
                            f @ Flow::Return(_) => return f,
                            Flow::Stop => return Flow::Stop,
                        }
                        match self.listen() {
                            Some(l) => self.set(&VarRef::Plain(*line), l),
                            None => {
                                self.e.outcome = Outcome::Damaged;
                                return Flow::Stop;
                            }
                        }
                        self.e.steps += 1;
                        if self.e.steps > STEP_LIMIT {
                            self.e.runaway = true;
                            return Flow::Stop;
                        }
                    }
                }
                Op::ListenLoopBreak { line, body } => loop {
                    match self.listen() {
                        Some(l) => self.set(&VarRef::Plain(*line), l),
                        None => {
                            self.e.outcome = Outcome::Damaged;
                            return Flow::Stop;
                        }
                    }
                    if self.cond(&Cond::VarIsEmpty(*line)) {
                        break;
                    }
                    match self.block(body) {
                        Flow::Normal | Flow::Continue => {}
                        Flow::Break => break,
                        f @ Flow::Return(_) => return f,
                        Flow::Stop => return Flow::Stop,
                    }
                    self.e.steps += 1;
                    if self.e.steps > STEP_LIMIT {
                        self.e.runaway = true;
                        return Flow::Stop;
                    }
                },
                Op::If { cond, then, els } => {
                    let f = if self.cond(cond) {
                        self.block(then)
                    } else if let Some(e) = els {
                        self.block(e)
                    } else {
                        Flow::Normal
                    };
                    match f {
                        Flow::Normal => {}
                        other => return other,
                    }
                }
                Op::Break => return Flow::Break,
                Op::Continue => return Flow::Continue,
                Op::CallStmt(f, args) => {
                    if self.call(*f, args).is_none() {
                        return Flow::Stop;
                    }
                }
                Op::SayCall(f, args) => {
                    self.in_say_call += 1;
                    let r = self.call(*f, args);
                    self.in_say_call -= 1;
                    match r {
                        Some(v) => {
                            let t = v.text();
                            self.say(&t)
                        }
                        None => return Flow::Stop,
                    }
                }
                Op::AssignCall(dest, f, args) => match self.call(*f, args) {
                    Some(v) => match v {
                        V::Str(s) => self.set(dest, s),
                        other => {
                            // only plain destinations are generated for
                            // non-string results
                            if let VarRef::Plain(d) = dest {
                                self.env.insert(*d, other);
                            }
                        }
                    },
                    None => return Flow::Stop,
                },
                Op::Return(r) => {
                    let v = match r {
                        Ret::Var(v) => self.env.get(v).cloned().unwrap_or(V::Undef),
                        Ret::Lit(s) => V::Str(s.clone()),
                        Ret::Concat(s, v) => {
                            V::Str(format!("{}{}", s, self.get(&VarRef::Plain(*v)).text()))
                        }
                    };
                    return Flow::Return(v);
                }
                Op::Filler(_) => {}
                Op::Die(_) => {
                    self.e.outcome = Outcome::Die;
                    return Flow::Stop;
                }
            }
        }
        Flow::Normal
    }
}
