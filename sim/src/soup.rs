//! "Soup" programs: random, mostly well-formed Rockstar covering the whole
//! statement and expression repertoire and every kind of value, with no
//! reference semantics attached. They are workload for the checks whose
//! oracle needs no model: C10 (runs are each other's reference) and C20 (the
//! library is the reference). A soup program may well stop with a runtime
//! error or not parse at all - that is workload too.
//!
//! What the generator guarantees: it terminates (loops are counted with a
//! reserved counter that nothing else writes - pronouns are never written to,
//! because a pronoun could mean the counter), it never recurses, and it never
//! emits an `else` that is not directly after its then-block (a stray `else`
//! makes this tree's parser loop for ever, which is C01's subject).

use crate::tape::Tape;

const VARS: &[&str] = &[
    "Alpha", "Bravo", "the wind", "my heart", "Johnny Cash", "gamma", "Delta", "your soul",
];
const FUNCS: &[&str] = &["Mixer", "Doubler", "Black Betty"];

fn var(t: &mut Tape) -> &'static str {
    VARS[t.draw(VARS.len() as u32) as usize]
}

fn literal(t: &mut Tape) -> String {
    match t.draw(16) {
        0 => "0".into(),
        1 => (t.draw(2000) as i64 - 1000).to_string(),
        2 => format!("{}.{}", t.draw(50), t.draw(100)),
        3 => format!("-{}", t.draw(9)),
        4 => "\"\"".into(),
        5 => format!("\"{}\"", *t.pick(&[
            "abc", "hello world", "ÿé日本", "a,b,,c", " padded ", "x", "it`s only rock", "`", "a`b`c`d",
            "{} %s $X \\n", "semi;colon (paren) [bracket]",
        ])),
        6 => format!("\"{}\"", *t.pick(&["12", "0x1F", "1e3", "-7.5", " 42", "007", "ff", "10"])),
        7 => (*t.pick(&["true", "right", "yes", "ok"])).into(),
        8 => (*t.pick(&["false", "wrong", "no", "lies"])).into(),
        9 => (*t.pick(&["null", "nothing", "nowhere", "nobody", "gone"])).into(),
        10 => "mysterious".into(),
        11 => (*t.pick(&["empty", "silent", "silence"])).into(),
        // (no huge numbers: used as a position or as a repetition count they
        // make the interpreter allocate that much, and an allocation failure
        // aborts the process - the harness, when the library runs in it)
        12 => "65536".into(),
        13 => "0.1".into(),
        14 => (*t.pick(&["2", "-0", "0 times -1", "-0.0"])).into(),
        _ => "10".into(),
    }
}

fn primary(t: &mut Tape, depth: u32, funcs: usize) -> String {
    match t.weighted(&[5, 6, 2, if funcs > 0 && depth < 2 { 2 } else { 0 }, 1, 1]) {
        0 => literal(t),
        1 => var(t).into(),
        2 => format!("{} at {}", var(t), index(t)),
        3 => {
            let f = t.draw(funcs as u32) as usize;
            let nargs = if f == 0 { 1 } else { 2 };
            let args: Vec<String> = (0..nargs).map(|_| simple_operand(t)).collect();
            format!("{} taking {}", FUNCS[f], args.join(", "))
        }
        4 => (*t.pick(&["it", "he", "she", "they", "them"])).into(),
        _ => format!("roll {}", var(t)),
    }
}

fn index(t: &mut Tape) -> String {
    match t.draw(5) {
        0 => t.draw(4).to_string(),
        1 => format!("\"{}\"", *t.pick(&["k", "name", "a b"])),
        2 => var(t).into(),
        3 => (*t.pick(&["true", "nothing", "mysterious"])).into(),
        _ => "0".into(),
    }
}

fn simple_operand(t: &mut Tape) -> String {
    if t.chance(1, 2) {
        literal(t)
    } else {
        var(t).into()
    }
}

pub fn expr(t: &mut Tape, depth: u32, funcs: usize) -> String {
    if depth >= 2 {
        return primary(t, depth, funcs);
    }
    match t.weighted(&[6, 5, 3, 2, 2, 1]) {
        0 => primary(t, depth, funcs),
        1 => {
            let op = *t.pick(&[
                "plus", "with", "minus", "without", "times", "of", "over", "between",
            ]);
            let rhs = if op == "times" || op == "of" {
                // text times a number repeats the text: small factors only
                small_factor(t)
            } else if t.chance(1, 6) {
                // an expression list on the right
                format!("{}, {}", expr(t, depth + 1, funcs), primary(t, 2, funcs))
            } else {
                expr(t, depth + 1, funcs)
            };
            format!("{} {} {}", primary(t, depth + 1, funcs), op, rhs)
        }
        2 => {
            let cmp = *t.pick(&[
                "is", "is not", "isnt", "aint", "is greater than", "is higher than",
                "is less than", "is weaker than", "is as great as", "is as high as",
                "is as low as", "is as little as", "are", "was",
            ]);
            format!("{} {} {}", primary(t, depth + 1, funcs), cmp, primary(t, depth + 1, funcs))
        }
        3 => {
            let op = *t.pick(&["and", "or", "nor"]);
            format!("{} {} {}", expr(t, depth + 1, funcs), op, expr(t, depth + 1, funcs))
        }
        4 => format!("not {}", primary(t, depth + 1, funcs)),
        _ => format!("-{}", t.draw(20)),
    }
}

fn small_factor(t: &mut Tape) -> String {
    (*t.pick(&["2", "0", "1", "3", "4", "0.5", "-1", "2, 2", "\"x\"", "true", "nothing", "mysterious"])).into()
}

fn poetic_words(t: &mut Tape) -> String {
    let n = 1 + t.draw(5);
    let mut s = String::new();
    for i in 0..n {
        if i > 0 {
            s.push(' ');
        }
        s.push_str(*t.pick(&[
            "a", "lovestruck", "ladykiller", "ice", "cold", "dancing", "on", "fire", "sweet",
            "dreams", "rock'n'roll", "heartbreak", "o",
        ]));
        if t.chance(1, 8) {
            s.push('.');
        }
    }
    s
}

/// loop counters: one set per scope (main program, each function), so that a
/// function called from inside a loop never touches its caller's counter
const COUNTERS: [[&str; 3]; 4] = [
    ["Loops", "Rounds", "Laps"],
    ["Spins", "Twirls", "Whirls"],
    ["Beats", "Bars", "Verses"],
    ["Steps", "Hops", "Skips"],
];

fn statement(t: &mut Tape, out: &mut String, depth: u32, funcs: usize, scope: usize) {
    let in_func = scope > 0;
    let nest = if depth < 2 { 2 } else { 0 };
    let w = [
        6, 4, 2, 2, 5, 2, 2, 3, 3, 3, 2, 2, 2, nest, nest, 2, 1, if in_func { 2 } else { 0 }, 1,
    ];
    match t.weighted(&w) {
        0 => out.push_str(&format!("Put {} into {}\n", expr(t, 0, funcs), var(t))),
        1 => out.push_str(&format!("Let {} be {}\n", var(t), expr(t, 0, funcs))),
        2 => {
            let op = *t.pick(&["with", "plus", "minus", "without", "times", "of", "over"]);
            let rhs = if op == "times" || op == "of" { small_factor(t) } else { expr(t, 1, funcs) };
            out.push_str(&format!("Let {} be {} {}\n", var(t), op, rhs))
        }
        3 => {
            if t.chance(1, 2) {
                out.push_str(&format!("{} is {}\n", var(t), poetic_words(t)))
            } else {
                out.push_str(&format!("{} says {}\n", var(t), poetic_words(t)))
            }
        }
        4 => {
            let verb = *t.pick(&["Say", "Shout", "Whisper", "Scream"]);
            if t.chance(1, 4) {
                // text joined with a small number, either way round
                let n = *t.pick(&["0", "1", "2", "-0", "10", "127", "128", "0.5", "-1", "255", "256"]);
                if t.chance(1, 2) {
                    out.push_str(&format!("{} \"n=\" plus {}\n", verb, n))
                } else {
                    out.push_str(&format!("{} {} plus \" items\"\n", verb, n))
                }
            } else {
                out.push_str(&format!("{} {}\n", verb, expr(t, 0, funcs)))
            }
        }
        5 => {
            let ups = ", up".repeat(t.draw(3) as usize);
            out.push_str(&format!("Build {} up{}\n", var(t), ups))
        }
        6 => {
            let downs = ", down".repeat(t.draw(3) as usize);
            out.push_str(&format!("Knock {} down{}\n", var(t), downs))
        }
        7 => {
            let s = match t.draw(4) {
                0 => format!("Turn up {}\n", var(t)),
                1 => format!("Turn down {}\n", var(t)),
                2 => format!("Turn {} around\n", var(t)),
                _ => format!("Turn round {}\n", var(t)),
            };
            out.push_str(&s)
        }
        8 => {
            let verb = *t.pick(&["Cut", "Split", "Shatter", "Join", "Unite", "Cast", "Burn"]);
            let mut s = format!("{} {}", verb, var(t));
            if t.chance(1, 2) {
                s.push_str(&format!(" into {}", var(t)));
            }
            if t.chance(1, 2) {
                s.push_str(&format!(" with {}", simple_operand(t)));
            }
            s.push('\n');
            out.push_str(&s)
        }
        9 => {
            let s = match t.draw(4) {
                0 => format!("Rock {}\n", var(t)),
                1 => format!("Rock {} with {}\n", var(t), simple_operand(t)),
                2 => format!(
                    "Rock {} with {}, {}, {}\n",
                    var(t),
                    simple_operand(t),
                    simple_operand(t),
                    simple_operand(t)
                ),
                _ => format!("Rock {} like {}\n", var(t), poetic_words(t)),
            };
            out.push_str(&s)
        }
        10 => {
            if t.chance(1, 2) {
                out.push_str(&format!("Roll {}\n", var(t)))
            } else {
                out.push_str(&format!("Roll {} into {}\n", var(t), var(t)))
            }
        }
        11 => out.push_str(&format!(
            "Let {} at {} be {}\n",
            var(t),
            index(t),
            expr(t, 1, funcs)
        )),
        12 => {
            if t.chance(1, 2) {
                out.push_str(&format!("Listen to {}\n", var(t)))
            } else {
                out.push_str("Listen\n")
            }
        }
        13 => {
            out.push_str(&format!("If {}\n", expr(t, 0, funcs)));
            block(t, out, depth + 1, funcs, scope);
            // (an if/else inside a function body ends the function on this
            // tree: only at the outer level)
            if !in_func && t.chance(1, 2) {
                out.push_str("Else\n");
                block(t, out, depth + 1, funcs, scope);
            }
            out.push('\n');
        }
        14 => {
            // a counted loop; the counter is reserved
            let counter = COUNTERS[scope % 4][depth as usize % 3];
            let k = 1 + t.draw(3);
            out.push_str(&format!("Put 0 into {}\n", counter));
            if t.chance(1, 2) {
                out.push_str(&format!("While {} is less than {}\n", counter, k));
            } else {
                out.push_str(&format!("Until {} is {}\n", counter, k));
            }
            out.push_str(&format!("Build {} up\n", counter));
            block(t, out, depth + 1, funcs, scope);
            if t.chance(1, 4) {
                out.push_str(*t.pick(&["Break\n", "Continue\n", "Break it down\n", "Take it to the top\n"]));
            }
            out.push('\n');
        }
        15 => {
            if funcs > 0 {
                let f = t.draw(funcs as u32) as usize;
                let nargs = if f == 0 { 1 } else { 2 };
                let args: Vec<String> = (0..nargs).map(|_| simple_operand(t)).collect();
                out.push_str(&format!("{} taking {}\n", FUNCS[f], args.join(", ")))
            } else {
                out.push_str(&format!("Say {}\n", var(t)))
            }
        }
        16 => out.push_str(&format!("Say {} at {} at {}\n", var(t), index(t), index(t))),
        17 => out.push_str(&format!("Give back {}\n", expr(t, 1, funcs))),
        _ => out.push_str(*t.pick(&["Break\n", "Continue\n", "Give back 1\n"])),
    }
}

fn block(t: &mut Tape, out: &mut String, depth: u32, funcs: usize, scope: usize) {
    let n = 1 + t.draw(3);
    for _ in 0..n {
        statement(t, out, depth, funcs, scope);
    }
}

pub struct Soup {
    pub source: String,
    pub input: Vec<u8>,
}

pub fn gen_soup(t: &mut Tape) -> Soup {
    let mut out = String::new();
    // starting values of every kind: mostly for every variable (a program
    // that reads an unset variable stops there), sometimes only for a few
    if t.chance(3, 4) {
        for v in VARS {
            out.push_str(&format!("Put {} into {}\n", literal(t), v));
        }
    } else {
        for _ in 0..(2 + t.draw(4)) {
            out.push_str(&format!("Put {} into {}\n", literal(t), var(t)));
        }
    }
    let nfuncs = t.weighted(&[3, 2, 1, 1]);
    for f in 0..nfuncs {
        // a function may call the functions defined before it, never itself
        let params = if f == 0 { "Param" } else { "Param and Other" };
        out.push_str(&format!("{} takes {}\n", FUNCS[f], params));
        let n = 1 + t.draw(3);
        for _ in 0..n {
            statement(t, &mut out, 1, f, f + 1);
        }
        if t.chance(3, 4) {
            out.push_str(&format!(
                "Give back {}\n",
                *t.pick(&["Param", "Param plus 1", "Param times 2", "\"r\" plus Param", "mysterious"])
            ));
        }
        out.push('\n');
    }
    let n = 3 + t.draw(9);
    // one soup in ten has words the lexer rejects, of several kinds, on
    // lines of their own among the statements (the program does not parse;
    // what is reported for it is workload too)
    let garbled = t.chance(1, 10);
    for _ in 0..n {
        statement(t, &mut out, 0, nfuncs, 0);
        if garbled && t.chance(1, 2) {
            out.push_str(*t.pick(&[
                "Say under_score\n",
                "Say ab1c\n",
                "Say @\n",
                "Put # into Alpha\n",
                "Say 1.2.3x\n",
                "Shout x9 plus y_z\n",
                "Say \"never closed\n",
                "(never closed\n",
            ]));
        }
    }
    let mut input = Vec::new();
    for i in 0..t.draw(4) {
        input.extend_from_slice(
            format!("{}\n", *t.pick(&["42", "text line", "", "3.5", "ÿ", "true", "7\r", "crlf line\r", "\u{feff}41"]))
                .replace("text line", &format!("text line {}", i))
                .as_bytes(),
        );
    }
    Soup { source: out, input }
}
