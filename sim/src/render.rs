//! Renders a `Script` to Rockstar source with seeded spelling variety,
//! restricted to a fragment whose meaning is not in dispute on this tree.

use crate::rng::Rng;
use crate::script::*;

/// Spelling decisions. With seed 0 every choice is the plain one (index 0),
/// so that shrinking the style seed to 0 normalises the rendering.
pub struct Styler {
    rng: Option<Rng>,
}

impl Styler {
    pub fn new(seed: u64) -> Self {
        Self {
            rng: if seed == 0 { None } else { Some(Rng::new(seed)) },
        }
    }
    fn pick(&mut self, n: usize) -> usize {
        match &mut self.rng {
            None => 0,
            Some(r) => r.below(n as u32) as usize,
        }
    }
    fn of<'a>(&mut self, xs: &[&'a str]) -> &'a str {
        xs[self.pick(xs.len())]
    }
    /// keyword in one of three letter cases
    fn kw(&mut self, word: &str) -> String {
        match self.pick(4) {
            0 | 1 => capitalise(word),
            2 => word.to_lowercase(),
            _ => word.to_uppercase(),
        }
    }
    /// keyword in the middle of a line (lower case preferred)
    fn mid(&mut self, word: &str) -> String {
        match self.pick(6) {
            0..=3 => word.to_lowercase(),
            4 => capitalise(word),
            _ => word.to_uppercase(),
        }
    }
}

fn capitalise(w: &str) -> String {
    let mut c = w.chars();
    match c.next() {
        Some(f) => f.to_uppercase().collect::<String>() + c.as_str(),
        None => String::new(),
    }
}

pub const SIMPLE_NAMES: &[&str] = &[
    "Line", "Tag", "Reply", "Word", "Answer", "Thing", "Value", "Noise", "Signal", "Tommy",
    "Gina", "Desire", "Midnight", "Whiskey", "Thunder", "Shadow", "Mirror", "River", "Stone",
    "Ember",
];
pub const COMMON_PREFIXES: &[&str] = &["my", "your", "the", "a", "our", "an"];
pub const COMMON_WORDS: &[&str] = &[
    "heart", "wind", "dream", "fire", "night", "world", "soul", "road", "song", "storm",
];
pub const PROPER_FIRST: &[&str] = &["Johnny", "Doctor", "Black", "Jolene", "Sweet", "Mister"];
pub const PROPER_SECOND: &[&str] = &["Cash", "Feelgood", "Betty", "Jones", "Caroline", "Crowley"];

/// Canonical (declaration) spelling of variable number `n` of a program:
/// cycles through simple, common and proper names; unique per program
/// (case-insensitively) for n < 20 + 60 + 36.
pub fn var_name(n: usize, kind_pick: usize) -> String {
    // every (n, kind) maps to a different name: beyond the pools, three-word
    // proper names indexed by n
    let kind = match kind_pick % 3 {
        0 if n < SIMPLE_NAMES.len() => 0,
        0 | 1 if n < COMMON_WORDS.len() * COMMON_PREFIXES.len() => 1,
        2 if n < PROPER_FIRST.len() * PROPER_SECOND.len() => 2,
        _ => 3,
    };
    match kind {
        3 => format!(
            "{} {} {}",
            PROPER_FIRST[n % PROPER_FIRST.len()],
            PROPER_SECOND[(n / PROPER_FIRST.len()) % PROPER_SECOND.len()],
            SIMPLE_NAMES[(n / (PROPER_FIRST.len() * PROPER_SECOND.len())) % SIMPLE_NAMES.len()]
        ),
        0 => SIMPLE_NAMES[n % SIMPLE_NAMES.len()].to_string(),
        1 => format!(
            "{} {}",
            COMMON_PREFIXES[(n / COMMON_WORDS.len()) % COMMON_PREFIXES.len()],
            COMMON_WORDS[n % COMMON_WORDS.len()]
        ),
        _ => format!(
            "{} {}",
            PROPER_FIRST[(n / PROPER_SECOND.len()) % PROPER_FIRST.len()],
            PROPER_SECOND[n % PROPER_SECOND.len()]
        ),
    }
}

pub struct Renderer<'a> {
    script: &'a Script,
    st: Styler,
    out: String,
    eol: &'static str,
    indent: bool,
    depth: usize,
    /// split the main block into several top-level blocks
    paragraphs: bool,
}

pub fn render(script: &Script, style_seed: u64) -> String {
    let mut st = Styler::new(style_seed);
    let eol = if st.pick(8) == 7 { "\r\n" } else { "\n" };
    let indent = st.pick(3) == 2;
    let paragraphs = st.pick(3) == 1;
    let mut r = Renderer {
        paragraphs,
        script,
        st,
        out: String::new(),
        eol,
        indent,
        depth: 0,
    };
    r.program();
    r.out
}

impl<'a> Renderer<'a> {
    fn name(&mut self, v: VarId) -> String {
        let base = &self.script.vars[v].0;
        // re-casing: simple and common names are case-insensitive; proper
        // names must stay capitalised word by word.
        let words: Vec<&str> = base.split(' ').collect();
        let is_common = words.len() == 2 && COMMON_PREFIXES.contains(&words[0]);
        let is_proper = words.len() >= 2 && !is_common;
        match self.st.pick(5) {
            0..=2 => base.clone(),
            3 => {
                if is_proper {
                    base.to_uppercase()
                } else {
                    base.to_lowercase()
                }
            }
            _ => {
                if is_common {
                    format!("{} {}", capitalise(words[0]), words[1].to_uppercase())
                } else {
                    base.to_uppercase()
                }
            }
        }
    }

    fn varref(&mut self, r: &VarRef) -> String {
        match r {
            VarRef::Plain(v) => self.name(*v),
            VarRef::At(v, Key::Num(n)) => format!("{} {} {}", self.name(*v), self.st.mid("at"), n),
            VarRef::At(v, Key::Str(s)) => {
                format!("{} {} \"{}\"", self.name(*v), self.st.mid("at"), s)
            }
        }
    }

    fn line(&mut self, text: &str, allow_comment: bool) {
        if self.indent {
            for _ in 0..self.depth {
                self.out.push_str("  ");
            }
        }
        self.out.push_str(text);
        if allow_comment && self.st.pick(12) == 11 {
            self.out.push_str(" (a comment)");
        }
        self.out.push_str(self.eol);
    }

    fn blank(&mut self) {
        if self.st.pick(6) == 5 {
            self.out.push_str("  ");
        }
        self.out.push_str(self.eol);
    }

    fn say_verb(&mut self) -> String {
        let v = self.st.of(&["say", "shout", "whisper", "scream"]);
        self.st.kw(v)
    }

    fn program(&mut self) {
        let script = self.script;
        // preamble: every variable is defined at top level before use
        for (id, (_, kind)) in script.vars.iter().enumerate() {
            let is_local = script
                .funcs
                .iter()
                .any(|f| f.locals.contains(&id) || f.params.contains(&id));
            if is_local {
                continue;
            }
            match kind {
                VarKind::Str => self.assign_lit(&VarRef::Plain(id), &init_literal(id)),
                VarKind::Counter => self.assign_int(id, 0),
                VarKind::Array => {
                    self.assign_lit(&VarRef::At(id, Key::Num(0)), &init_literal(id))
                }
                VarKind::Func | VarKind::Param => {}
            }
        }
        // fixed helper variables (never said): Junk, Stack, Doom
        self.line("Put 0 into Junk", true);
        self.line("Rock Stack", true);
        self.line("Put \"doom\" into Doom", true);
        for f in &script.funcs {
            self.function(f);
        }
        self.block(&script.main);
    }

    fn assign_lit(&mut self, r: &VarRef, lit: &str) {
        let dest = self.varref(r);
        let plain_poetic_ok = matches!(r, VarRef::Plain(_))
            && self.eol == "\n"
            && !lit.is_empty()
            && !lit.starts_with(' ')
            && !lit.ends_with(' ');
        match self.st.pick(if plain_poetic_ok { 4 } else { 3 }) {
            0 => {
                let (p, i) = (self.st.kw("put"), self.st.mid("into"));
                self.line(&format!("{} \"{}\" {} {}", p, lit, i, dest), true)
            }
            1 => {
                let (l, b) = (self.st.kw("let"), self.st.mid("be"));
                self.line(&format!("{} {} {} \"{}\"", l, dest, b, lit), true)
            }
            2 => {
                let p = self.st.kw("put");
                self.line(&format!("{} \"{}\" in {}", p, lit, dest), true)
            }
            _ => {
                let s = self.st.of(&["says", "said"]);
                self.line(&format!("{} {} {}", dest, s, lit), false)
            }
        }
    }

    fn assign_int(&mut self, v: VarId, n: i64) {
        let dest = self.name(v);
        match self.st.pick(3) {
            0 => {
                let (p, i) = (self.st.kw("put"), self.st.mid("into"));
                self.line(&format!("{} {} {} {}", p, n, i, dest), true)
            }
            1 => {
                let (l, b) = (self.st.kw("let"), self.st.mid("be"));
                self.line(&format!("{} {} {} {}", l, dest, b, n), true)
            }
            _ => {
                let is = self.st.of(&["is", "was", "are", "were"]);
                self.line(&format!("{} {} {}", dest, is, n), true)
            }
        }
    }

    fn const_text(&mut self, c: &Const) -> String {
        match c {
            Const::Canonical(s) => s.to_string(),
            Const::Spelled(spelling, _) => spelling.to_string(),
            Const::Int(n) => n.to_string(),
            Const::Half(n) => format!("{}.5", n),
            Const::True => self.st.of(&["true", "right", "yes", "ok"]).to_string(),
            Const::False => self.st.of(&["false", "wrong", "no", "lies"]).to_string(),
            Const::Null => self
                .st
                .of(&["null", "nothing", "nowhere", "nobody", "gone"])
                .to_string(),
            Const::Mysterious => "mysterious".to_string(),
            Const::Empty => self.st.of(&["\"\"", "empty", "silent", "silence"]).to_string(),
        }
    }

    fn cond(&mut self, c: &Cond) -> String {
        match c {
            Cond::Const(true) => self
                .st
                .of(&["true", "right", "yes", "ok", "1 is 1", "\"a\" is \"a\""])
                .to_string(),
            Cond::Const(false) => self
                .st
                .of(&["false", "wrong", "no", "lies", "1 is 2", "\"a\" is \"b\""])
                .to_string(),
            Cond::CounterIs(v, k) => {
                let n = self.name(*v);
                let is = self.st.of(&["is", "was"]);
                format!("{} {} {}", n, is, k)
            }
            Cond::CounterLess(v, k) => {
                let n = self.name(*v);
                let w = self.st.of(&["less", "lower", "smaller", "weaker"]);
                format!("{} is {} than {}", n, w, k)
            }
            Cond::VarIsEmpty(v) => {
                let n = self.name(*v);
                let e = self.st.of(&["empty", "\"\"", "silent", "silence"]);
                format!("{} is {}", n, e)
            }
            Cond::VarNotEmpty(v) => {
                let n = self.name(*v);
                let e = self.st.of(&["empty", "\"\"", "silent"]);
                let neg = self.st.of(&["isnt", "ain't", "is not", "isn't", "aint"]);
                format!("{} {} {}", n, neg, e)
            }
        }
    }

    fn args(&mut self, args: &[Arg]) -> String {
        let mut s = String::new();
        for (i, a) in args.iter().enumerate() {
            if i > 0 {
                s.push_str(self.st.of(&[", ", " & ", ", and ", " 'n' "]));
            }
            match a {
                Arg::Lit(l) => s.push_str(&format!("\"{}\"", l)),
                Arg::Int(n) => s.push_str(&n.to_string()),
                Arg::Var(v) => s.push_str(&self.name(*v)),
                Arg::Call(f, inner) => {
                    let c = self.call(*f, inner);
                    s.push_str(&c)
                }
            }
        }
        s
    }

    fn call(&mut self, f: usize, args: &[Arg]) -> String {
        let name = self.name(self.script.funcs[f].name);
        let t = self.st.mid("taking");
        let a = self.args(args);
        format!("{} {} {}", name, t, a)
    }

    fn function(&mut self, f: &Func) {
        let name = self.name(f.name);
        let takes = self.st.of(&["takes", "wants"]);
        let mut params = String::new();
        for (i, p) in f.params.iter().enumerate() {
            if i > 0 {
                params.push_str(self.st.of(&[" and ", ", ", " & ", ", and ", " 'n' "]));
            }
            params.push_str(&self.name(*p));
        }
        self.line(&format!("{} {} {}", name, takes, params), true);
        self.depth += 1;
        for l in &f.locals {
            self.assign_lit(&VarRef::Plain(*l), &init_literal(*l));
        }
        self.block(&f.body);
        self.depth -= 1;
        self.blank();
    }

    fn block(&mut self, ops: &[Op]) {
        for (i, op) in ops.iter().enumerate() {
            // at top level a blank line starts a new top-level block
            // (paragraph); the meaning of the program does not change
            if i > 0 && self.depth == 0 && self.paragraphs && self.st.pick(3) == 0 {
                self.blank();
            }
            self.op(op);
        }
    }

    fn op(&mut self, op: &Op) {
        match op {
            Op::SayLit(s) => {
                let v = self.say_verb();
                self.line(&format!("{} \"{}\"", v, s), true)
            }
            Op::SayConst(c) => {
                let v = self.say_verb();
                let t = self.const_text(c);
                self.line(&format!("{} {}", v, t), true)
            }
            Op::SayVar(r) => {
                let v = self.say_verb();
                let t = self.varref(r);
                self.line(&format!("{} {}", v, t), true)
            }
            Op::SayIt(_) => {
                let v = self.say_verb();
                let p = self.st.of(&["it", "he", "she", "him", "her", "they", "them", "ze", "xe"]);
                self.line(&format!("{} {}", v, p), true)
            }
            Op::SayConcat(lit, var) => {
                let v = self.say_verb();
                let plus = self.st.of(&["plus", "with"]);
                let n = self.name(*var);
                self.line(&format!("{} \"{}\" {} {}", v, lit, plus, n), true)
            }
            Op::SayArith(c, op, k) => {
                let v = self.say_verb();
                let n = self.name(*c);
                let w = match op % 3 {
                    0 => self.st.of(&["plus", "with"]),
                    1 => self.st.of(&["minus", "without"]),
                    _ => self.st.of(&["times", "of"]),
                };
                self.line(&format!("{} {} {} {}", v, n, w, k), true)
            }
            Op::SayCond(c) => {
                let v = self.say_verb();
                let t = self.cond(c);
                self.line(&format!("{} {}", v, t), true)
            }
            Op::SayLength(x) => {
                let c = self.st.of(&["Cut", "Split", "Shatter", "cut"]);
                let n = self.name(*x);
                self.line(&format!("{} {} into Bits", c, n), true);
                let v = self.say_verb();
                self.line(&format!("{} Bits", v), true)
            }
            Op::Listen(None) => {
                let l = self.st.kw("listen");
                self.line(&l, true)
            }
            Op::Listen(Some(r)) => {
                let l = self.st.kw("listen");
                let to = self.st.mid("to");
                let d = self.varref(r);
                self.line(&format!("{} {} {}", l, to, d), true)
            }
            Op::ListenIt(_) => {
                let l = self.st.kw("listen");
                let to = self.st.mid("to");
                let p = self.st.of(&["it", "he", "she", "him", "her", "they", "them", "ze", "xe"]);
                self.line(&format!("{} {} {}", l, to, p), true)
            }
            Op::AssignLit(r, s) => self.assign_lit(r, s),
            Op::AssignInt(v, n) => self.assign_int(*v, *n),
            Op::Repeat { counter, n, body } => {
                self.assign_int(*counter, 0);
                let c = self.name(*counter);
                let head = match self.st.pick(5) {
                    0 => format!("{} {} is less than {}", self.st.kw("while"), c, n),
                    1 => format!("{} {} is {}", self.st.kw("until"), c, n),
                    2 => format!("{} {} is as high as {}", self.st.kw("until"), c, n),
                    3 => format!("{} {} isnt {}", self.st.kw("while"), c, n),
                    _ => format!("{} {} is lower than {}", self.st.kw("while"), c, n),
                };
                self.line(&head, true);
                self.depth += 1;
                let b = self.st.kw("build");
                let c2 = self.name(*counter);
                self.line(&format!("{} {} up", b, c2), true);
                self.block(body);
                self.depth -= 1;
                self.blank();
            }
            Op::ListenLoop { line, body } => {
                self.op(&Op::Listen(Some(VarRef::Plain(*line))));
                let head = if self.st.pick(2) == 0 {
                    format!("{} {}", self.st.kw("until"), self.cond(&Cond::VarIsEmpty(*line)))
                } else {
                    format!("{} {}", self.st.kw("while"), self.cond(&Cond::VarNotEmpty(*line)))
                };
                self.line(&head, true);
                self.depth += 1;
                self.block(body);
                self.op(&Op::Listen(Some(VarRef::Plain(*line))));
                self.depth -= 1;
                self.blank();
            }
            Op::ListenLoopBreak { line, body } => {
                let head = if self.st.pick(2) == 0 {
                    format!("{} {}", self.st.kw("while"), self.cond(&Cond::Const(true)))
                } else {
                    format!("{} {}", self.st.kw("until"), self.cond(&Cond::Const(false)))
                };
                self.line(&head, true);
                self.depth += 1;
                self.op(&Op::Listen(Some(VarRef::Plain(*line))));
                self.op(&Op::If {
                    cond: Cond::VarIsEmpty(*line),
                    then: vec![Op::Break],
                    els: None,
                });
                self.block(body);
                self.depth -= 1;
                self.blank();
            }
            Op::If { cond, then, els } => {
                let head = format!("{} {}", self.st.kw("if"), self.cond(cond));
                self.line(&head, true);
                self.depth += 1;
                self.block(then);
                self.depth -= 1;
                if let Some(e) = els {
                    let w = self.st.kw("else");
                    self.line(&w, true);
                    self.depth += 1;
                    self.block(e);
                    self.depth -= 1;
                }
                self.blank();
            }
            Op::Break => {
                let t = if self.st.pick(2) == 0 {
                    self.st.kw("break")
                } else {
                    format!("{} it down", self.st.kw("break"))
                };
                self.line(&t, true)
            }
            Op::Continue => {
                let t = if self.st.pick(2) == 0 {
                    self.st.kw("continue")
                } else {
                    format!("{} it to the top", self.st.kw("take"))
                };
                self.line(&t, true)
            }
            Op::CallStmt(f, args) => {
                let c = self.call(*f, args);
                self.line(&c, true)
            }
            Op::SayCall(f, args) => {
                let v = self.say_verb();
                let c = self.call(*f, args);
                self.line(&format!("{} {}", v, c), true)
            }
            Op::AssignCall(dest, f, args) => {
                let c = self.call(*f, args);
                let d = self.varref(dest);
                if self.st.pick(2) == 0 {
                    let (p, i) = (self.st.kw("put"), self.st.mid("into"));
                    self.line(&format!("{} {} {} {}", p, c, i, d), true)
                } else {
                    let (l, b) = (self.st.kw("let"), self.st.mid("be"));
                    self.line(&format!("{} {} {} {}", l, d, b, c), true)
                }
            }
            Op::Return(r) => {
                let e = match r {
                    Ret::Var(v) => self.name(*v),
                    Ret::Lit(s) => format!("\"{}\"", s),
                    Ret::Concat(s, v) => format!("\"{}\" plus {}", s, self.name(*v)),
                };
                let t = match self.st.pick(4) {
                    0 => format!("Give back {}", e),
                    1 => format!("Give {} back", e),
                    2 => format!("Return {}", e),
                    _ => format!("Send {} back", e),
                };
                self.line(&t, true)
            }
            Op::Filler(k) if k % 12 == 11 => {
                // pushing onto a variable that holds a plain number
                self.line("Put 7 into Lone", true);
                self.line("Rock Lone with 8", true)
            }
            Op::Filler(k) => {
                let t = match k % 12 {
                    6 => "Cut \"a,b,c\" into Pieces with \",\"",
                    7 => "Cast \"42\" into Numeral",
                    8 => "Turn up Junk",
                    9 => "Turn Junk around",
                    10 => "Rock Stack with 1, 2, 3, 4, 5, 6, 7, 8, 9, 10, 11",
                    0 => "Put 1 plus 2 into Junk",
                    1 => "Rock Stack with 1, 2",
                    2 => "Roll Stack",
                    3 => "Build Junk up",
                    4 => "Let Junk be Junk times 2",
                    _ => "Knock Junk down, down",
                };
                self.line(t, true)
            }
            Op::Die(k) => {
                let t = match k {
                    DieKind::IncString => "Build Doom up".to_string(),
                    DieKind::UndefinedVar => "Say Ghost".to_string(),
                    DieKind::PopString => "Roll Doom".to_string(),
                    DieKind::WrongArgCount(f) => {
                        let n = self.script.funcs[*f].params.len() + 1;
                        let args: Vec<Arg> = (0..n).map(|i| Arg::Int(i as i64)).collect();
                        self.call(*f, &args)
                    }
                };
                self.line(&t, true)
            }
        }
    }
}
