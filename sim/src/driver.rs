//! Batch driver: seeded search over scenarios on all cores, violation
//! minimisation, replay files, fresh-process replay verification, known
//! findings, evidence.

use std::collections::{BTreeMap, BTreeSet, HashSet};
use std::path::PathBuf;
use std::sync::atomic::{AtomicBool, AtomicU64, Ordering};
use std::sync::Mutex;
use std::time::{Duration, Instant};

use crate::json::{self, J};
use crate::rng::{hash_bytes, hash_combine, mix3};
use crate::tape::{shrink, Tape};

#[derive(Clone, Copy, Debug, PartialEq, Eq)]
pub enum Tier {
    Quick,
    Thorough,
}

impl Tier {
    pub fn name(self) -> &'static str {
        match self {
            Tier::Quick => "quick",
            Tier::Thorough => "thorough",
        }
    }
    pub fn parse(s: &str) -> Option<Tier> {
        match s {
            "quick" => Some(Tier::Quick),
            "thorough" => Some(Tier::Thorough),
            _ => None,
        }
    }
}

#[derive(Clone, Debug, Default)]
pub struct Stats {
    pub counters: BTreeMap<String, u64>,
}

impl Stats {
    pub fn inc(&mut self, key: &str) {
        self.add(key, 1)
    }
    pub fn add(&mut self, key: &str, n: u64) {
        if let Some(v) = self.counters.get_mut(key) {
            *v += n;
        } else {
            self.counters.insert(key.to_string(), n);
        }
    }
    pub fn merge(&mut self, other: &Stats) {
        for (k, v) in &other.counters {
            self.add(k, *v);
        }
    }
    pub fn get(&self, key: &str) -> u64 {
        self.counters.get(key).copied().unwrap_or(0)
    }
    fn to_json_prefixed(&self, prefix: &str) -> J {
        J::O(self
            .counters
            .iter()
            .filter(|(k, _)| k.starts_with(prefix))
            .map(|(k, v)| (k[prefix.len()..].to_string(), J::U(*v)))
            .collect())
    }
}

#[derive(Clone, Debug)]
pub struct Violation {
    /// Oracle rule id, e.g. "C08.P2". Defines "same violation" for shrinking.
    pub rule: String,
    pub detail: String,
    /// Human-readable decoding of the failing scenario and execution.
    pub render: J,
    /// Hash of the recorded history of the failing execution.
    pub log_hash: u64,
    /// Structural facts about the failing scenario, for known-finding predicates.
    pub tags: Vec<String>,
}

pub struct ScenarioResult {
    pub violation: Option<Violation>,
    pub executions: u64,
    pub steps: u64,
    /// identity of the decoded scenario
    pub key: u64,
    pub nontrivial: bool,
    /// distinct history identities reached in this scenario
    pub histories: Vec<u64>,
    pub sample: Option<J>,
    /// hash of every observation made in this scenario (determinism self-test)
    pub digest: u64,
}

pub struct Ctx {
    pub tier: Tier,
    pub want_sample: bool,
    pub index: u64,
}

pub struct Plan {
    pub scenarios: u64,
    pub time_cap_s: u64,
    pub shrink_budget: usize,
}

pub struct EvidenceInfo {
    pub level: &'static str,
    pub rule: String,
    pub assumptions: Vec<String>,
    pub components_real: Vec<String>,
    pub components_stub: Vec<String>,
    pub step_unit: &'static str,
    /// what one "distinct history" is
    pub history_measure: &'static str,
}

pub trait Property: Sync + Send {
    fn id(&self) -> &'static str;
    fn plan(&self, tier: Tier) -> Plan;
    fn run(&self, tape: &mut Tape, ctx: &Ctx, stats: &mut Stats) -> ScenarioResult;
    fn evidence_info(&self) -> EvidenceInfo;
    /// Run once when the harness process starts, before any scenario, in
    /// batch runs and in replays alike: puts the process into the state of
    /// one that has already done plenty of ordinary work with the code under
    /// test, so that scenarios meet the same process history in a replay as
    /// in the batch that found them.
    fn process_warm_up(&self) {}
}

pub fn verif_dir() -> PathBuf {
    PathBuf::from(std::env::var("VERIF_DIR").unwrap_or_else(|_| "/verif".to_string()))
}

pub fn env_u64(name: &str) -> Option<u64> {
    std::env::var(name).ok().and_then(|s| s.trim().parse().ok())
}

pub fn scenario_seed(seed: u64, prop: &str, index: u64) -> u64 {
    mix3(seed, hash_bytes(prop.as_bytes()), index)
}

pub struct BatchResult {
    pub scenarios: u64,
    pub executions: u64,
    pub steps: u64,
    pub distinct_nontrivial: u64,
    pub distinct_histories: u64,
    pub digest: u64,
    pub per_scenario_digest: Vec<(u64, u64)>,
    pub stats: Stats,
    pub samples: Vec<J>,
    pub violations: Vec<(u64, Violation, Vec<u32>, crate::tape::Spans, Vec<u64>)>,
    pub wall_s: f64,
    pub hit_time_cap: bool,
}

struct WorkerOut {
    scenarios: u64,
    executions: u64,
    steps: u64,
    keys: HashSet<u64>,
    histories: HashSet<u64>,
    digests: Vec<(u64, u64)>,
    stats: Stats,
    samples: Vec<(u64, J)>,
    violations: Vec<(u64, Violation, Vec<u32>, crate::tape::Spans, Vec<u64>)>,
}

const HANG_S: u64 = 60;

// Watchdog plumbing: every execution of code under test calls `heartbeat()`;
// a worker whose last heartbeat is HANG_S seconds old is stuck inside the
// code under test (one execution takes micro- to milliseconds).
static HEARTBEATS: [AtomicU64; 128] = {
    const Z: AtomicU64 = AtomicU64::new(0);
    [Z; 128]
};
static CLOCK: std::sync::OnceLock<Instant> = std::sync::OnceLock::new();
thread_local! {
    static WORKER_SLOT: std::cell::Cell<usize> = std::cell::Cell::new(0);
}

fn now_ms() -> u64 {
    CLOCK.get_or_init(Instant::now).elapsed().as_millis() as u64 + 1
}

/// Called by properties before each execution of code under test. Never
/// influences a scenario: it only feeds the hang watchdog.
pub fn current_slot() -> usize {
    WORKER_SLOT.with(|s| s.get())
}

/// A helper thread of a worker reports heartbeats in the worker's slot.
pub fn adopt_slot(slot: usize) {
    WORKER_SLOT.with(|s| s.set(slot));
}

pub fn heartbeat() {
    let slot = WORKER_SLOT.with(|s| s.get());
    HEARTBEATS[slot].store(now_ms(), Ordering::Relaxed);
}
const MAX_VIOLATIONS: usize = 40;

pub fn run_batch(
    prop: &dyn Property,
    tier: Tier,
    seed: u64,
    scenarios: u64,
    time_cap: Duration,
    workers: usize,
    keep_digests: bool,
) -> BatchResult {
    let start = Instant::now();
    let next = AtomicU64::new(0);
    let stop = AtomicBool::new(false);
    let hit_cap = AtomicBool::new(false);
    let nviol = AtomicU64::new(0);
    // watchdog state: per worker (index+1, start ms); 0 = idle
    let running: Vec<(AtomicU64, AtomicU64)> = (0..workers)
        .map(|_| (AtomicU64::new(0), AtomicU64::new(0)))
        .collect();
    let done = AtomicBool::new(false);
    let outs: Mutex<Vec<WorkerOut>> = Mutex::new(Vec::new());

    std::thread::scope(|scope| {
        // watchdog: a scenario that runs for HANG_S seconds of wall-clock is
        // reported as a bounded-progress violation (scenarios take
        // milliseconds; the margin is four orders of magnitude).
        scope.spawn(|| {
            while !done.load(Ordering::Relaxed) {
                std::thread::sleep(Duration::from_millis(200));
                let now = now_ms();
                for (slot, (idx, _)) in running.iter().enumerate() {
                    let i = idx.load(Ordering::Relaxed);
                    let t = HEARTBEATS[slot].load(Ordering::Relaxed);
                    if i != 0 && now.saturating_sub(t) > HANG_S * 1000 {
                        report_hang(prop, tier, seed, i - 1);
                    }
                }
            }
        });
        let mut handles = Vec::new();
        for w in 0..workers {
            let (next, stop, hit_cap, nviol, running, outs) =
                (&next, &stop, &hit_cap, &nviol, &running, &outs);
            handles.push(
                std::thread::Builder::new()
                    .stack_size(64 << 20)
                    .spawn_scoped(scope, move || {
                        let mut out = WorkerOut {
                            scenarios: 0,
                            executions: 0,
                            steps: 0,
                            keys: HashSet::new(),
                            histories: HashSet::new(),
                            digests: Vec::new(),
                            stats: Stats::default(),
                            samples: Vec::new(),
                            violations: Vec::new(),
                        };
                        // the scenarios this worker ran just before (context
                        // for violations that depend on process history)
                        let mut recent: std::collections::VecDeque<u64> =
                            std::collections::VecDeque::new();
                        loop {
                            if stop.load(Ordering::Relaxed) {
                                break;
                            }
                            if start.elapsed() > time_cap {
                                hit_cap.store(true, Ordering::Relaxed);
                                break;
                            }
                            let i = next.fetch_add(1, Ordering::Relaxed);
                            if i >= scenarios {
                                break;
                            }
                            WORKER_SLOT.with(|s| s.set(w));
                            heartbeat();
                            running[w].0.store(i + 1, Ordering::Relaxed);
                            let mut tape = Tape::record(scenario_seed(seed, prop.id(), i));
                            let ctx = Ctx {
                                tier,
                                want_sample: i < 3,
                                index: i,
                            };
                            let r = run_isolated(prop, &mut tape, &ctx, &mut out.stats);
                            running[w].0.store(0, Ordering::Relaxed);
                            let context: Vec<u64> = recent.iter().copied().collect();
                            recent.push_back(i);
                            if recent.len() > 3 {
                                recent.pop_front();
                            }
                            out.scenarios += 1;
                            out.executions += r.executions;
                            out.steps += r.steps;
                            if r.nontrivial {
                                out.keys.insert(r.key);
                            }
                            for h in r.histories {
                                out.histories.insert(h);
                            }
                            out.digests.push((i, r.digest));
                            if let Some(s) = r.sample {
                                out.samples.push((i, s));
                            }
                            if let Some(v) = r.violation {
                                let (canon, spans) = tape.into_parts();
                                out.violations.push((i, v, canon, spans, context));
                                if nviol.fetch_add(1, Ordering::Relaxed) + 1 >= MAX_VIOLATIONS as u64
                                {
                                    stop.store(true, Ordering::Relaxed);
                                }
                            }
                        }
                        outs.lock().unwrap().push(out);
                    })
                    .expect("spawn worker"),
            );
        }
        for h in handles {
            h.join().expect("worker panicked (harness error)");
        }
        done.store(true, Ordering::Relaxed);
    });

    let outs = outs.into_inner().unwrap();
    let mut res = BatchResult {
        scenarios: 0,
        executions: 0,
        steps: 0,
        distinct_nontrivial: 0,
        distinct_histories: 0,
        digest: 0,
        per_scenario_digest: Vec::new(),
        stats: Stats::default(),
        samples: Vec::new(),
        violations: Vec::new(),
        wall_s: 0.0,
        hit_time_cap: hit_cap.load(Ordering::Relaxed),
    };
    let mut keys: HashSet<u64> = HashSet::new();
    let mut histories: HashSet<u64> = HashSet::new();
    let mut samples: Vec<(u64, J)> = Vec::new();
    for o in outs {
        res.scenarios += o.scenarios;
        res.executions += o.executions;
        res.steps += o.steps;
        keys.extend(o.keys);
        histories.extend(o.histories);
        res.per_scenario_digest.extend(o.digests);
        res.stats.merge(&o.stats);
        samples.extend(o.samples);
        res.violations.extend(o.violations);
    }
    res.per_scenario_digest.sort();
    for (i, d) in &res.per_scenario_digest {
        res.digest = res.digest.wrapping_add(hash_combine(*i, *d));
    }
    if !keep_digests {
        res.per_scenario_digest.clear();
    }
    samples.sort_by_key(|(i, _)| *i);
    res.samples = samples.into_iter().map(|(_, s)| s).collect();
    res.violations.sort_by_key(|(i, _, _, _, _)| *i);
    res.distinct_nontrivial = keys.len() as u64;
    res.distinct_histories = histories.len() as u64;
    res.wall_s = start.elapsed().as_secs_f64();
    res
}

fn report_hang(prop: &dyn Property, tier: Tier, seed: u64, index: u64) -> ! {
    let dir = verif_dir().join("replays");
    let _ = std::fs::create_dir_all(&dir);
    let path = dir.join(format!("{}-{}-{}-hang.json", prop.id(), seed, index));
    let j = J::obj(vec![
        ("property", J::s(prop.id())),
        ("seed", J::U(seed)),
        ("index", J::U(index)),
        ("tier", J::s(tier.name())),
        ("rule", J::s(format!("{}.HANG", prop.id()))),
        (
            "detail",
            J::s(format!(
                "one execution of the code under test did not return within {} s of wall-clock \
                 (bounded progress); the tape is regenerated from seed and index",
                HANG_S
            )),
        ),
        ("tape", J::Null),
    ]);
    let _ = std::fs::write(&path, j.pretty());
    println!("VIOLATION property={} replay={}", prop.id(), path.display());
    std::process::exit(1);
}

/// Runs one scenario on a thread of its own: whatever the code under test
/// keeps per thread starts clean for every scenario, so a re-run of the
/// scenario (minimisation, replay) sees what the first run saw.
pub fn run_isolated(
    prop: &dyn Property,
    tape: &mut Tape,
    ctx: &Ctx,
    stats: &mut Stats,
) -> ScenarioResult {
    let slot = current_slot();
    std::thread::scope(|s| {
        std::thread::Builder::new()
            .stack_size(64 << 20)
            .spawn_scoped(s, || {
                adopt_slot(slot);
                prop.run(tape, ctx, stats)
            })
            .expect("spawn scenario thread")
            .join()
            .expect("scenario thread panicked (harness error)")
    })
}

// ------------------------------------------------------------ known findings

#[derive(Debug, Clone)]
pub struct KnownFinding {
    pub property: String,
    pub rule: String,
    pub tag: String,
    pub text: String,
}

pub fn load_known_findings() -> Vec<KnownFinding> {
    let path = verif_dir().join("known_findings.txt");
    let text = std::fs::read_to_string(path).unwrap_or_default();
    let mut out = Vec::new();
    for line in text.lines() {
        let line = line.trim();
        if !line.starts_with("known:") {
            continue; // comments, blank lines, "fixed:" entries suppress nothing
        }
        let mut property = String::new();
        let mut rule = String::new();
        let mut tag = String::new();
        let mut rest = Vec::new();
        for word in line["known:".len()..].split_whitespace() {
            if let Some(v) = word.strip_prefix("property=") {
                property = v.to_string();
            } else if let Some(v) = word.strip_prefix("rule=") {
                rule = v.to_string();
            } else if let Some(v) = word.strip_prefix("match=") {
                tag = v.to_string();
            } else {
                rest.push(word);
            }
        }
        out.push(KnownFinding {
            property,
            rule,
            tag,
            text: rest.join(" "),
        });
    }
    out
}

fn match_known<'a>(known: &'a [KnownFinding], prop: &str, v: &Violation) -> Option<&'a KnownFinding> {
    known
        .iter()
        .find(|k| k.property == prop && k.rule == v.rule && v.tags.iter().any(|t| *t == k.tag))
}

// ------------------------------------------------------------------ checking

pub struct CheckOutcome {
    pub exit_code: i32,
}

fn rerun(
    prop: &dyn Property,
    tier: Tier,
    index: u64,
    tape: &[u32],
) -> (ScenarioResult, Vec<u32>, crate::tape::Spans) {
    let mut t = Tape::replay(tape.to_vec());
    let mut st = Stats::default();
    let ctx = Ctx {
        tier,
        want_sample: false,
        index,
    };
    let r = run_isolated(prop, &mut t, &ctx, &mut st);
    let (canon, spans) = t.into_parts();
    (r, canon, spans)
}

pub fn replay_file_json(
    prop: &dyn Property,
    tier: Tier,
    seed: u64,
    index: u64,
    v: &Violation,
    tape: &[u32],
    original_len: usize,
    shrink_runs: usize,
) -> J {
    J::obj(vec![
        ("property", J::s(prop.id())),
        ("seed", J::U(seed)),
        ("index", J::U(index)),
        ("tier", J::s(tier.name())),
        ("rule", J::s(v.rule.clone())),
        ("detail", J::s(v.detail.clone())),
        ("log_hash", J::U(v.log_hash)),
        ("tags", J::A(v.tags.iter().map(|t| J::s(t.clone())).collect())),
        ("tape_len_before_minimisation", J::U(original_len as u64)),
        ("minimisation_runs", J::U(shrink_runs as u64)),
        ("tape", J::A(tape.iter().map(|x| J::U(*x as u64)).collect())),
        ("scenario", v.render.clone()),
    ])
}

/// Runs a whole check (batch + violation handling + evidence). Returns the
/// process exit code: 0 held, 1 violation, 2 harness error.
pub fn check(prop: &dyn Property, tier: Tier) -> i32 {
    let seed = env_u64("VERIF_SEED").unwrap_or(1);
    println!("VERIF_SEED={} property={} tier={}", seed, prop.id(), tier.name());
    let plan = prop.plan(tier);
    let scenarios = env_u64("VERIF_SCENARIOS").unwrap_or(plan.scenarios);
    let cap = Duration::from_secs(env_u64("VERIF_TIME_CAP_S").unwrap_or(plan.time_cap_s));
    let workers = env_u64("VERIF_WORKERS")
        .map(|w| w as usize)
        .unwrap_or_else(|| {
            std::thread::available_parallelism()
                .map(|n| n.get())
                .unwrap_or(4)
        })
        .clamp(1, 128);
    let res = run_batch(prop, tier, seed, scenarios, cap, workers, false);

    let known = load_known_findings();
    let mut exit_code = 0;
    let mut reported_known: BTreeSet<String> = BTreeSet::new();
    let mut new_violations = 0u64;
    let mut known_hits = 0u64;
    let mut printed_rules: BTreeSet<String> = BTreeSet::new();
    let mut unconfirmed: Vec<(String, String, PathBuf, String)> = Vec::new();

    // minimisation is bounded in executions and in wall-clock (per violation
    // and in total); the clock only decides how far minimisation gets, never
    // what is reported as failing
    let shrink_started = Instant::now();
    for (index, v0, tape0, spans0, context0) in &res.violations {
        // minimise: same oracle rule must keep failing
        let rule = v0.rule.clone();
        let mut budget = plan.shrink_budget;
        if printed_rules.contains(&rule) {
            budget = budget.min(100);
        }
        let this_started = Instant::now();
        let (best, used) = shrink(tape0.clone(), spans0.clone(), budget, |cand| {
            if this_started.elapsed() > Duration::from_secs(30)
                || shrink_started.elapsed() > Duration::from_secs(90)
            {
                return None;
            }
            let (r, canon, spans) = rerun(prop, tier, *index, cand);
            match r.violation {
                Some(v) if v.rule == rule => Some((canon, spans)),
                _ => None,
            }
        });
        let (r, canon, _) = rerun(prop, tier, *index, &best);
        let mut history_context: Option<Vec<u64>> = None;
        let (v, canon, used) = match r.violation {
            Some(v) if v.rule == rule => (v, canon, used),
            _ => {
                history_context = Some(context0.clone());
                // The violation does not recur when the scenario is re-run in
                // this process: what the code under test did depended on what
                // this process had run before (state carried between calls).
                // Report the original, unminimised scenario; the fresh-process
                // replay below decides whether it stands.
                println!(
                    "note: scenario {} (rule {}) does not recur on in-process re-runs; reporting it unminimised",
                    index, rule
                );
                (v0.clone(), tape0.clone(), 0)
            }
        };
        if let Some(k) = match_known(&known, prop.id(), &v) {
            known_hits += 1;
            if reported_known.insert(format!("{} {}", k.rule, k.tag)) {
                println!("KNOWN-FINDING: property={} {}", prop.id(), k.text);
            }
            continue;
        }
        new_violations += 1;
        if !printed_rules.insert(rule.clone()) {
            continue; // one report per rule is enough
        }
        let dir = verif_dir().join("replays");
        if let Err(e) = std::fs::create_dir_all(&dir) {
            eprintln!("HARNESS ERROR: cannot create {}: {}", dir.display(), e);
            return 2;
        }
        let path = dir.join(format!("{}-{}-{}.json", prop.id(), seed, index));
        let mut j = replay_file_json(prop, tier, seed, *index, &v, &canon, tape0.len(), used);
        if let (Some(ctx_indices), J::O(fields)) = (&history_context, &mut j) {
            // what happened depended on what this process had run before:
            // the replay first re-runs the scenarios the same worker ran
            // just before (regenerated from seed and index), then this one
            fields.push((
                "history_dependent".to_string(),
                J::Bool(true),
            ));
            fields.push((
                "context_scenarios".to_string(),
                J::A(ctx_indices.iter().map(|i| J::U(*i)).collect()),
            ));
        }
        if let Err(e) = std::fs::write(&path, j.pretty()) {
            eprintln!("HARNESS ERROR: cannot write {}: {}", path.display(), e);
            return 2;
        }
        // replay in a fresh process: must fail the same way. What the code
        // under test does may not be a function of the scenario alone (a
        // race inside the child process, real elapsed time): such a
        // violation is given three replays, and another scenario that broke
        // the same rule is tried before it is reported as it stands.
        let mut verdict = verify_replay_fresh_process(prop.id(), &path);
        for _ in 0..2 {
            if verdict.is_ok() {
                break;
            }
            verdict = verify_replay_fresh_process(prop.id(), &path);
        }
        match verdict {
            Ok(()) => {
                println!("violation rule={} detail={}", v.rule, v.detail);
                println!("VIOLATION property={} replay={}", prop.id(), path.display());
                exit_code = 1;
            }
            Err(e) => {
                unconfirmed.push((v.rule.clone(), v.detail.clone(), path.clone(), e));
                if unconfirmed.len() < 5 {
                    // let another scenario that broke this rule be tried
                    printed_rules.remove(&rule);
                }
            }
        }
    }
    // violations seen in the batch that no replay showed again: reported
    // (they happened, the replay file says what was run and what was seen),
    // marked as not replaying, unless a replaying violation was reported
    if exit_code == 0 {
        if let Some((rule, detail, path, why)) = unconfirmed.first() {
            println!("violation rule={} detail={}", rule, detail);
            println!(
                "note: seen in the batch but not in 3 fresh-process replays of {} ({}); the behaviour is not a function of the scenario alone - {} scenario(s) of this kind",
                path.display(),
                why.lines().next().unwrap_or("").chars().take(160).collect::<String>(),
                unconfirmed.len()
            );
            println!("VIOLATION property={} replay={}", prop.id(), path.display());
            exit_code = 1;
        }
    }

    if let Err(e) = write_evidence(prop, tier, seed, workers, &res, new_violations, known_hits) {
        eprintln!("HARNESS ERROR: cannot write evidence: {}", e);
        return 2;
    }
    println!(
        "property={} tier={} scenarios={} executions={} steps={} distinct_nontrivial={} distinct_histories={} violations={} known={} wall_s={:.2}{}",
        prop.id(),
        tier.name(),
        res.scenarios,
        res.executions,
        res.steps,
        res.distinct_nontrivial,
        res.distinct_histories,
        new_violations,
        known_hits,
        res.wall_s,
        if res.hit_time_cap { " (time cap reached)" } else { "" }
    );
    exit_code
}

fn verify_replay_fresh_process(prop: &str, path: &std::path::Path) -> Result<(), String> {
    let exe = std::env::current_exe().map_err(|e| e.to_string())?;
    let out = std::process::Command::new(exe)
        .arg(prop)
        .arg("--replay")
        .arg(path)
        .arg("--machine")
        .output()
        .map_err(|e| e.to_string())?;
    let stdout = String::from_utf8_lossy(&out.stdout);
    if out.status.code() == Some(1) && stdout.contains("REPRODUCED exact=true") {
        Ok(())
    } else {
        Err(format!(
            "status {:?}, stdout: {}, stderr: {}",
            out.status.code(),
            stdout.trim(),
            String::from_utf8_lossy(&out.stderr).trim()
        ))
    }
}

/// `--replay FILE`: re-run exactly the recorded scenario. Exit 1 (with the
/// VIOLATION line) if it fails, 0 if it passes, 2 on harness errors.
pub fn replay(prop: &dyn Property, path: &str, machine: bool) -> i32 {
    let text = match std::fs::read_to_string(path) {
        Ok(t) => t,
        Err(e) => {
            eprintln!("HARNESS ERROR: cannot read {}: {}", path, e);
            return 2;
        }
    };
    let j = match json::parse(&text) {
        Ok(j) => j,
        Err(e) => {
            eprintln!("HARNESS ERROR: {} is not valid JSON: {}", path, e);
            return 2;
        }
    };
    let tier = j
        .get("tier")
        .and_then(|t| t.as_str())
        .and_then(Tier::parse)
        .unwrap_or(Tier::Quick);
    let seed = j.get("seed").and_then(|s| s.as_u64()).unwrap_or(1);
    let index = j.get("index").and_then(|s| s.as_u64()).unwrap_or(0);
    let want_rule = j.get("rule").and_then(|s| s.as_str()).unwrap_or("").to_string();
    let want_hash = j.get("log_hash").and_then(|s| s.as_u64());
    println!("VERIF_SEED={} property={} replay index={}", seed, prop.id(), index);

    // the watchdog also guards replays (a recorded hang hangs again)
    let prop_id = prop.id().to_string();
    let path_owned = path.to_string();
    WORKER_SLOT.with(|s| s.set(0));
    heartbeat();
    std::thread::spawn(move || loop {
        std::thread::sleep(Duration::from_millis(500));
        if now_ms().saturating_sub(HEARTBEATS[0].load(Ordering::Relaxed)) > HANG_S * 1000 {
            println!("REPRODUCED exact=true rule={}.HANG", prop_id);
            println!("VIOLATION property={} replay={}", prop_id, path_owned);
            std::process::exit(1);
        }
    });

    let mut tape = match j.get("tape") {
        Some(J::A(items)) => Tape::replay(
            items
                .iter()
                .map(|x| x.as_u64().unwrap_or(0) as u32)
                .collect(),
        ),
        _ => Tape::record(scenario_seed(seed, prop.id(), index)),
    };
    let history_dependent = matches!(j.get("history_dependent"), Some(J::Bool(true)));
    let mut st = Stats::default();
    if let Some(items) = j.get("context_scenarios").and_then(|c| c.as_arr()) {
        for item in items {
            if let Some(ci) = item.as_u64() {
                let mut t = Tape::record(scenario_seed(seed, prop.id(), ci));
                let c = Ctx {
                    tier,
                    want_sample: false,
                    index: ci,
                };
                let _ = run_isolated(prop, &mut t, &c, &mut st);
            }
        }
    }
    let ctx = Ctx {
        tier,
        want_sample: false,
        index,
    };
    let r = run_isolated(prop, &mut tape, &ctx, &mut st);
    match r.violation {
        Some(v) => {
            // a history-dependent violation cannot promise the same failing
            // execution, only the same rule on the same scenario
            let exact = v.rule == want_rule
                && (history_dependent || want_hash.map_or(true, |h| h == v.log_hash));
            println!("REPRODUCED exact={} rule={} detail={}", exact, v.rule, v.detail);
            if !machine {
                println!("{}", v.render.pretty());
            }
            println!("VIOLATION property={} replay={}", prop.id(), path);
            1
        }
        None => {
            println!("NOT-REPRODUCED: the recorded scenario passes on this tree");
            0
        }
    }
}

fn write_evidence(
    prop: &dyn Property,
    tier: Tier,
    seed: u64,
    workers: usize,
    res: &BatchResult,
    violations: u64,
    known_hits: u64,
) -> std::io::Result<()> {
    let info = prop.evidence_info();
    let dir = verif_dir().join("evidence");
    std::fs::create_dir_all(&dir)?;
    let per_hour = |n: u64| -> J {
        if res.wall_s > 0.0 {
            J::U((n as f64 / res.wall_s * 3600.0) as u64)
        } else {
            J::U(0)
        }
    };
    let coverage = J::obj(vec![
        ("evaluations", J::U(res.executions)),
        ("distinct_nontrivial", J::U(res.distinct_nontrivial)),
        ("rule", J::s(info.rule)),
        ("samples", J::A(res.samples.clone())),
        ("scenarios", J::U(res.scenarios)),
        ("scenario_seeds", J::s(format!(
            "scenario i uses sub-seed mix3(VERIF_SEED={}, hash(\"{}\"), i), i = 0..{}",
            seed,
            prop.id(),
            res.scenarios
        ))),
        ("scenarios_per_hour", per_hour(res.scenarios)),
        ("executions_per_hour", per_hour(res.executions)),
        ("steps_simulated", J::U(res.steps)),
        ("step_unit", J::s(info.step_unit)),
        (
            "simulated_time",
            J::s({
                use std::sync::atomic::Ordering;
                let worlds = crate::procworld::CLOCK_WORLDS.load(Ordering::Relaxed);
                let readings = crate::procworld::CLOCK_READINGS.load(Ordering::Relaxed);
                let ms = crate::procworld::CLOCK_SIMULATED_MS.load(Ordering::Relaxed);
                if worlds == 0 {
                    "none: no process of this batch ran under the clock seam; in-process the code under test has no clock to read and no timers; progress is measured in steps".to_string()
                } else {
                    format!(
                        "{} child processes ran under the clock seam (preloaded shim: skewed wall clock, 0.7-90 s passing per reading); they read a clock {} times, which covered {:.1} s of simulated time (0 readings = the code under test never looked at a clock, so no time-dependent behaviour exists to explore); progress is otherwise measured in steps",
                        worlds,
                        readings,
                        ms as f64 / 1000.0
                    )
                }
            }),
        ),
        ("distinct_histories", J::U(res.distinct_histories)),
        ("distinct_histories_measure", J::s(info.history_measure)),
        ("faults_configured", res.stats.to_json_prefixed("fault.configured.")),
        ("faults_fired", res.stats.to_json_prefixed("fault.fired.")),
        ("probes", res.stats.to_json_prefixed("probe.")),
        ("counters", res.stats.to_json_prefixed("count.")),
        ("components_real", J::A(info.components_real.into_iter().map(J::S).collect())),
        ("components_stub", J::A(info.components_stub.into_iter().map(J::S).collect())),
        ("batch_digest", J::s(format!("{:016x}", res.digest))),
        ("workers", J::U(workers as u64)),
        ("time_cap_reached", J::Bool(res.hit_time_cap)),
        ("known_finding_hits", J::U(known_hits)),
        ("exhaustive", J::Bool(false)),
    ]);
    let j = J::obj(vec![
        ("property_id", J::s(prop.id())),
        ("tier", J::s(tier.name())),
        ("seed", J::U(seed)),
        ("level", J::s(info.level)),
        ("coverage", coverage),
        ("assumptions", J::A(info.assumptions.into_iter().map(J::S).collect())),
        ("wall_s", J::F((res.wall_s * 1000.0).round() / 1000.0)),
        ("violations", J::U(violations)),
    ]);
    // the registered evidence file, plus a per-tier copy so that a quick run
    // does not erase the record of the last thorough run
    std::fs::write(dir.join(format!("{}.{}.json", prop.id(), tier.name())), j.pretty())?;
    std::fs::write(dir.join(format!("{}.json", prop.id())), j.pretty())
}

// --------------------------------------------------------- determinism proof

/// Runs `n` scenarios twice in this process (different worker counts) and
/// compares per-scenario digests; prints them so that a second process can be
/// diffed against this one.
pub fn selftest_determinism(prop: &dyn Property, tier: Tier, n: u64, print: bool) -> i32 {
    let seed = env_u64("VERIF_SEED").unwrap_or(1);
    let a = run_batch(prop, tier, seed, n, Duration::from_secs(3600), 16, true);
    let b = run_batch(prop, tier, seed, n, Duration::from_secs(3600), 1.max(env_u64("VERIF_WORKERS").unwrap_or(3) as usize), true);
    let mut diff = 0;
    for (x, y) in a.per_scenario_digest.iter().zip(b.per_scenario_digest.iter()) {
        if x != y {
            diff += 1;
            if diff <= 5 {
                eprintln!("DETERMINISM: scenario {} digest {:016x} vs {:016x}", x.0, x.1, y.1);
            }
        }
    }
    if a.per_scenario_digest.len() != b.per_scenario_digest.len() {
        diff += 1;
    }
    if print {
        for (i, d) in &a.per_scenario_digest {
            println!("D {} {} {:016x}", prop.id(), i, d);
        }
    }
    println!(
        "determinism property={} scenarios={} executions={} differing={} digest={:016x}",
        prop.id(),
        a.scenarios,
        a.executions,
        diff,
        a.digest
    );
    if diff == 0 {
        0
    } else {
        2
    }
}
