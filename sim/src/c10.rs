//! C10 — same program and input give the same output, result and messages
//! every time. The dictionary hasher seed (the repository's only entropy
//! source) is behind a guarded seam; seeded search over hasher seeds,
//! threads, heap layouts, delivery schedules and processes.

use std::collections::BTreeSet;

use crate::c08::{guarded, RunResult};
use crate::driver::*;
use crate::json::{render_bytes, J};
use crate::procworld::{self, ProcSpec, Scratch, StdinKind};
use crate::rng::{hash_bytes, hash_combine, Rng};
use crate::stream::*;
use crate::tape::Tape;

pub struct C10;

// ------------------------------------------------------------- generator

const KEYS: &[&str] = &[
    "\"a\"", "\"b\"", "\"key\"", "\"näme\"", "mysterious", "nothing", "true", "false", "\"\"",
    "\"zed\"", "\"Q\"", "\"longer key with spaces\"", "right", "null", "\"0\"",
];
/// Keys that collide under truncation, case folding, trimming or
/// normalisation: whatever order is derived from a lossy view of the key
/// falls back to hasher order for these.
const NEAR_KEYS: &[&str] = &[
    "\"a long dictionary key with a shared prefix, variant A\"",
    "\"a long dictionary key with a shared prefix, variant B\"",
    "\"a long dictionary key with a shared prefix, variant C\"",
    "\"a long dictionary key with a shared prefix, variant D\"",
    "\"a long dictionary key with a shared prefix\"",
    "\"Key\"", "\"key\"", "\"KEY\"", "\"key \"", "\" key\"", "\"k\u{e9}y\"", "\"ke\u{301}y\"",
    "\"1\"", "\"01\"", "\"1.0\"", "\"9\"", "\"10\"", "\"1a\"", "\"2\"", "\"10a\"", "\"-1\"", "\"1e1\"", "\"true\"", "true", "\"null\"", "null", "\"mysterious\"", "mysterious",
];
const STR_VALS: &[&str] = &["\"1\"", "\"2\"", "\"x\"", "\"ÿ\"", "\"v v\"", "\"\"", "\"end\""];
const OTHER_VALS: &[&str] = &["7", "true", "nothing", "mysterious", "3.5", "-2"];
const ARR: &[&str] = &["Alpha", "Bravo", "Charlie"];

pub struct DictProgram {
    pub source: String,
    pub input: Vec<u8>,
    pub features: Vec<&'static str>,
}

pub fn gen_dict_program(t: &mut Tape) -> DictProgram {
    let mut src = String::new();
    let mut features: Vec<&'static str> = Vec::new();
    // every top-level statement a paragraph of its own (many top-level blocks)
    let paragraphs = t.chance(1, 6);
    if paragraphs {
        features.push("many top-level blocks");
    }
    let narr = 1 + t.weighted(&[4, 3, 1]);
    let mut nkeys_of = vec![0usize; narr];
    let mut all_str = vec![true; narr];
    // (key, value) assignments of the dictionary part of each array, in order
    let mut assigned: Vec<Vec<(String, String)>> = vec![Vec::new(); narr];
    for a in 0..narr {
        // key family: the plain pool; keys that collide under truncation,
        // case folding or trimming; or a big dictionary
        let family = t.weighted(&[5, 3, 1, 3, 1]);
        let mut keys: Vec<String> = Vec::new();
        let mut unstored_spelling: Option<&str> = None;
        match family {
            0 => {
                let nkeys = 2 + t.draw(5) as usize;
                for _ in 0..nkeys {
                    let k = KEYS[t.draw(KEYS.len() as u32) as usize].to_string();
                    if !keys.contains(&k) {
                        keys.push(k);
                    }
                }
            }
            1 => {
                features.push("near-identical keys");
                // every other time two of the three spellings of one word
                // are stored and the third is read (see below)
                let cluster = t.draw(3);
                if cluster == 1 {
                    // two or three of the long keys that agree on a long prefix
                    let n = 2 + t.draw(2) as usize;
                    let from = t.draw(5) as usize;
                    for i in 0..n {
                        let k = NEAR_KEYS[(from + i) % 5].to_string();
                        if !keys.contains(&k) {
                            keys.push(k);
                        }
                    }
                }
                if cluster == 0 {
                    let third = t.draw(3) as usize;
                    let spellings = ["\"Key\"", "\"key\"", "\"KEY\""];
                    for (i, k) in spellings.iter().enumerate() {
                        if i != third {
                            keys.push(k.to_string());
                        }
                    }
                    unstored_spelling = Some(spellings[third]);
                }
                let nkeys = 2 + t.draw(5) as usize;
                for _ in 0..nkeys {
                    let k = NEAR_KEYS[t.draw(NEAR_KEYS.len() as u32) as usize].to_string();
                    if !keys.contains(&k) {
                        keys.push(k);
                    }
                }
            }
            3 => {
                // string keys that look like numbers mixed with ones that do
                // not: orders by value and by spelling disagree
                features.push("numeric-looking keys");
                const NUMERIC_MIX: &[&str] = &[
                    "\"9\"", "\"10\"", "\"1a\"", "\"2\"", "\"10a\"", "\"-1\"", "\"1e1\"", "\"100\"",
                    "\"09\"", "\"a1\"", "\"1.5\"", "\"x\"",
                ];
                let nkeys = 3 + t.draw(4) as usize;
                for _ in 0..nkeys {
                    let k = NUMERIC_MIX[t.draw(NUMERIC_MIX.len() as u32) as usize].to_string();
                    if !keys.contains(&k) {
                        keys.push(k);
                    }
                }
            }
            4 => {
                // subscripts that are numbers but no positions (not a number,
                // negative, fractional), held in variables and used more than
                // once, among ordinary keys
                features.push("numeric subscripts that are no positions");
                if !src.contains("into the void\n") {
                    src.push_str("Put 0 over 0 into the void\nPut 0 minus 1 into the debt\nPut 0.5 into the half\nPut 0 minus 2.5 into the depth\nPut 1.5 into the rest\n");
                }
                const ODD: &[&str] = &["the void", "the debt", "the half", "the depth", "the rest"];
                let nkeys = 3 + t.draw(5) as usize;
                for _ in 0..nkeys {
                    if t.chance(2, 3) {
                        keys.push(ODD[t.weighted(&[4, 1, 1, 1, 1])].to_string());
                    } else {
                        let k = KEYS[t.draw(KEYS.len() as u32) as usize].to_string();
                        if !keys.contains(&k) {
                            keys.push(k);
                        }
                    }
                }
            }
            _ => {
                features.push("dictionary with more than 16 keys");
                let nkeys = 17 + t.draw(24) as usize;
                let stride = 1 + t.draw(6) as usize;
                for i in 0..nkeys {
                    keys.push(format!("\"k{:02}\"", (i * stride * 7) % 97));
                }
                keys.dedup();
            }
        }
        // near-identical keys sometimes all get the same value (entries that
        // differ in nothing but the key's case or padding)
        let same_value = family == 1 && t.chance(1, 2);
        let mut used: Vec<String> = Vec::new();
        for key in keys {
            if used.contains(&key) && family != 4 {
                continue;
            }
            used.push(key.clone());
            let v = if family == 1 && same_value {
                "\"same\"".to_string()
            } else if t.chance(1, if family == 2 { 12 } else { 5 }) {
                all_str[a] = false;
                if a > 0 && t.chance(1, 2) {
                    features.push("nested dict");
                    ARR[a - 1].to_string()
                } else {
                    (*t.pick(OTHER_VALS)).to_string()
                }
            } else if family == 2 {
                format!("\"v{}\"", used.len())
            } else {
                (*t.pick(STR_VALS)).to_string()
            };
            match t.draw(2) {
                0 => src.push_str(&format!("Let {} at {} be {}\n", ARR[a], key, v)),
                _ => src.push_str(&format!("Put {} into {} at {}\n", v, ARR[a], key)),
            }
            assigned[a].push((key.clone(), v.clone()));
        }
        nkeys_of[a] = used.len();
        if let Some(k) = unstored_spelling {
            if !used.iter().any(|u| u == k) {
                src.push_str(&format!("Say {} at {}\n", ARR[a], k));
            }
        }
        // some positional elements too
        for i in 0..t.draw(3) {
            let v = if t.chance(1, 6) {
                all_str[a] = false;
                (*t.pick(OTHER_VALS)).to_string()
            } else {
                (*t.pick(STR_VALS)).to_string()
            };
            src.push_str(&format!("Let {} at {} be {}\n", ARR[a], i, v));
        }
    }
    let has_fn = t.chance(1, 3);
    if has_fn {
        src.push_str("Joiner takes Box\nJoin Box with \"-\"\nGive back Box\n\n");
        src.push_str("Keeper takes Box and Extra\nLet Box at \"extra\" be Extra\nJoin Box into Glue with \"+\"\nGive back Glue\n\n");
    }
    // deep recursion that ends in a runtime error (or returns): whatever
    // the interpreter keeps per call is multiplied by the depth
    let has_dive = t.chance(1, 5);
    if has_dive {
        features.push("deep recursion");
        src.push_str("Put \"doom\" into Doom\n");
        src.push_str("Dive takes Depth\nIf Depth is 0\nBuild Doom up\n\nPut Depth minus 1 into Deeper\nGive back Dive taking Deeper\n\n");
        src.push_str("Climb takes Depth\nIf Depth is 0\nGive back \"top\"\n\nPut Depth minus 1 into Deeper\nGive back Climb taking Deeper\n\n");
    }
    // a function whose parameter list repeats two different names (an error
    // whichever stage reports it; several candidates to name)
    let has_dup = t.chance(1, 10);
    if has_dup {
        features.push("function with repeated parameter names");
        src.push_str("Twice takes Ay, Bee, Ay, and Bee\nGive back Ay\n\n");
    }
    let nops_at = t.pos();
    let nops = 2 + t.draw(7);
    for _ in 0..nops {
        let op_start = t.pos();
        let a = t.draw(narr as u32) as usize;
        let name = ARR[a];
        let w = [
            6, // 0 join into + say
            3, // 1 join with delimiter
            2, // 2 say length / element
            2, // 3 copy then mutate then join both
            if has_fn { 3 } else { 0 }, // 4 through a function
            2, // 5 rock / roll
            2, // 6 equality between arrays
            1, // 7 ordering comparison (error renders both arrays)
            1, // 8 array used as key (error renders it)
            1, // 9 build up (error renders it)
            1, // 10 cast / turn / cut (errors)
            1, // 11 listen into a key, echo
            1, // 12 lint bait
            1, // 13 join in place, then say
            1, // 14 undefined name (error names a variable)
            if has_dive { 4 } else { 0 }, // 15 deep recursion
            3, // 16 an equal dictionary built independently (other insertion order), compared
            if has_dup { 4 } else { 0 }, // 17 call the function with repeated parameter names
            2, // 18 characters of a long plain string, up to and past its end
            1, // 19 a loop that goes round more than a thousand times
            1, // 20 an array nested forty deep, rendered in an error
        ];
        match t.weighted(&w) {
            0 => {
                if nkeys_of[a] >= 2 {
                    features.push("join over >=2 dict entries");
                    if !all_str[a] {
                        features.push("join error candidate");
                    }
                }
                src.push_str(&format!("Join {} into Result\nSay Result\n", name));
            }
            1 => {
                if nkeys_of[a] >= 2 {
                    features.push("join over >=2 dict entries");
                }
                let d = *t.pick(&["\", \"", "\"\"", "\"|\"", "\"ü\""]);
                src.push_str(&format!("Join {} into Result with {}\nShout Result\n", name, d));
            }
            2 => {
                if t.chance(1, 2) {
                    src.push_str(&format!("Say {}\n", name));
                } else if !assigned[a].is_empty() && t.chance(1, 2) {
                    // a key of this array in another spelling: other case,
                    // padded, trimmed (a key that was never stored, close to
                    // ones that were)
                    let stored = assigned[a][t.draw(assigned[a].len() as u32) as usize].0.clone();
                    let k = match t.draw(5) {
                        0 => stored.to_lowercase(),
                        1 => stored.to_uppercase(),
                        2 => stored.replace('"', "").trim().chars().rev().collect::<String>(),
                        3 => format!("\"{} \"", stored.trim_matches('"')),
                        _ => {
                            let inner = stored.trim_matches('"');
                            let mut c = inner.chars();
                            match c.next() {
                                Some(f) => format!("\"{}{}\"", f.to_uppercase(), c.as_str().to_lowercase()),
                                None => stored.clone(),
                            }
                        }
                    };
                    let k = if k.starts_with('"') || assigned[a].iter().any(|(s, _)| *s == k) { k } else { format!("\"{}\"", k) };
                    src.push_str(&format!("Say {} at {}\n", name, k));
                } else {
                    let k = *t.pick(KEYS);
                    src.push_str(&format!("Say {} at {}\n", name, k));
                }
            }
            3 => {
                features.push("array copied then mutated");
                src.push_str(&format!(
                    "Put {} into Copy\nLet Copy at \"fresh\" be \"new\"\nJoin Copy into Left with \"/\"\nJoin {} into Right with \"/\"\nSay Left\nSay Right\n",
                    name, name
                ));
            }
            4 => {
                features.push("dict passed to function");
                if t.chance(1, 2) {
                    src.push_str(&format!("Say Joiner taking {}\n", name));
                } else {
                    src.push_str(&format!("Say Keeper taking {}, \"tail\"\n", name));
                }
            }
            5 => {
                if t.chance(1, 2) {
                    src.push_str(&format!("Rock {} with \"p\", \"q\"\n", name));
                } else {
                    src.push_str(&format!("Roll {} into Popped\nSay Popped\n", name));
                }
            }
            6 => {
                let b = ARR[t.draw(narr as u32) as usize];
                src.push_str(&format!(
                    "Put {} into Twin\nIf Twin is {}\nSay \"same\"\nElse\nSay \"different\"\n\n",
                    name, b
                ));
            }
            7 => {
                features.push("error message renders a dict");
                let b = ARR[t.draw(narr as u32) as usize];
                src.push_str(&format!("Say {} is greater than {}\n", name, b));
            }
            8 => {
                features.push("error message renders a dict");
                let b = ARR[t.draw(narr as u32) as usize];
                src.push_str(&format!("Say {} at {}\n", b, name));
            }
            9 => {
                features.push("error message renders a dict");
                src.push_str(&format!("Build {} up\n", name));
            }
            10 => {
                features.push("error message renders a dict");
                let s = match t.draw(3) {
                    0 => format!("Cast {} into Number\n", name),
                    1 => format!("Turn up {}\n", name),
                    _ => format!("Cut {} into Pieces\n", name),
                };
                src.push_str(&s);
            }
            11 => {
                let k = *t.pick(KEYS);
                src.push_str(&format!("Listen to {} at {}\nSay {} at {}\n", name, k, name, k));
            }
            12 => {
                features.push("lint findings");
                src.push_str("Put 5 into Counter\nPut Counter plus Counter into Counter\nSay Counter\nLet Motto be \"rock\"\n");
            }
            13 => {
                if nkeys_of[a] >= 2 {
                    features.push("join over >=2 dict entries");
                }
                src.push_str(&format!("Put {} into Scratch\nJoin Scratch\nSay Scratch\n", name));
            }
            15 => {
                let depth = 40 + t.draw(160);
                if t.chance(2, 3) {
                    src.push_str(&format!("Say Climb taking {}\nSay Dive taking {}\n", depth / 2, depth));
                } else {
                    src.push_str(&format!("Say Climb taking {}\n", depth));
                }
            }
            16 => {
                features.push("equal dictionaries built independently");
                // same entries, other insertion order: a different table
                // (own hasher key, own layout) with equal contents
                let mut entries = assigned[a].clone();
                match t.draw(3) {
                    0 => entries.reverse(),
                    1 => {
                        let k = entries.len() / 2;
                        entries.rotate_left(k);
                    }
                    _ => entries.sort(),
                }
                src.push_str("Put mysterious into Echo\n");
                for (k, v) in &entries {
                    src.push_str(&format!("Let Echo at {} be {}\n", k, v));
                }
                match t.draw(3) {
                    0 => src.push_str(&format!("If Echo is {}\nSay \"equal\"\nElse\nSay \"unequal\"\n\n", name)),
                    1 => src.push_str(&format!("Say {} is Echo\n", name)),
                    _ => src.push_str(&format!("Say Echo aint {}\n", name)),
                }
            }
            17 => src.push_str("Say Twice taking 1, 2, 3, 4\n"),
            20 => {
                features.push("deeply nested array in an error message");
                let depth = [31u32, 33, 40, 70][t.draw(4) as usize];
                src.push_str(&format!(
                    "Let Nest at 0 be \"core\"\nPut 0 into Levels\nWhile Levels is less than {}\nBuild Levels up\nPut Nest into Shell at 0\nLet Shell at \"level\" be Levels\nPut Shell into Nest\nPut mysterious into Shell\n\nBuild Nest up\n",
                    depth
                ));
            }
            19 => {
                // (cheap: nothing but the counter; with the clock seam whole
                // minutes pass while it runs)
                features.push("loop of more than a thousand rounds");
                let rounds = [1025u32, 1500, 2049, 4097][t.draw(4) as usize];
                src.push_str(&format!(
                    "Put 0 into Ticks\nWhile Ticks is less than {}\nBuild Ticks up\n\nSay Ticks\n",
                    rounds
                ));
            }
            18 => {
                features.push("string indexed at and past its end");
                let len = 30 + t.draw(40) as usize;
                let text: String = (0..len).map(|k| (b'a' + (k % 26) as u8) as char).collect();
                if t.chance(1, 2) {
                    src.push_str(&format!("Put \"{}\" into Text\n", text));
                } else {
                    // built at run time (spare capacity behind the text)
                    let (a, b) = text.split_at(len / 2);
                    src.push_str(&format!("Put \"{}\" plus \"{}\" into Text\n", a, b));
                }
                for i in [len - 1, len, len + 1, len + 7] {
                    src.push_str(&format!("Say Text at {}\n", i));
                }
            }
            _ => {
                features.push("undefined name error");
                match t.draw(3) {
                    0 => src.push_str("Put 1 into One\nPut 2 into Two\nPut 3 into Three\nSay Phantom\n"),
                    // a misspelt name with several equally similar known names
                    1 => src.push_str("Put 1 into Cat\nPut 2 into Bat\nPut 3 into Hat\nPut 4 into Rat\nSay Mat\n"),
                    _ => src.push_str("Put 1 into the heart\nPut 2 into your heart\nPut 3 into our heart\nSay my heart\n"),
                }
            }
        }
        t.element(op_start, nops_at);
    }
    if paragraphs {
        src = one_statement_per_paragraph(&src);
    }
    if t.chance(1, 12) {
        features.push("parse error");
        src.push_str("Say say say\n");
    }
    let nlines = t.draw(4);
    let mut input = Vec::new();
    for i in 0..nlines {
        input.extend_from_slice(format!("line{}\n", i).as_bytes());
    }
    features.sort();
    features.dedup();
    DictProgram {
        source: src,
        input,
        features,
    }
}

/// Puts a blank line after every top-level statement (functions and if/else
/// blocks, which are closed by a blank line already, stay whole).
fn one_statement_per_paragraph(src: &str) -> String {
    let mut out = String::with_capacity(src.len() * 2);
    let mut inside = false; // inside a function or if block (until its blank line)
    for line in src.split_inclusive('\n') {
        let l = line.trim_end();
        out.push_str(line);
        if l.is_empty() {
            inside = false;
            continue;
        }
        let lower = l.to_lowercase();
        if lower.starts_with("if ") || lower.contains(" takes ") {
            inside = true;
        }
        if !inside {
            out.push('\n');
        }
    }
    out
}

/// A text with the same layout as `src` (same length, words at the same
/// offsets with the same lengths) but other content: ASCII words that are
/// keywords become non-words, other ASCII words become keywords of the same
/// length where one exists. Parsed (never executed) in the same buffer as the
/// real program, it probes for state keyed by where text lies rather than by
/// what it says. `else` is never produced (a stray `else` makes this tree's
/// parser loop for ever; that is C01's subject).
pub fn same_shape_decoy(src: &str) -> String {
    const BY_LEN: &[&[&str]] = &[
        &[],
        &[],
        &["it", "is", "as", "up", "or", "to", "at", "of", "be", "no", "ok"],
        &["say", "the", "and", "not", "put", "let", "nor", "yes", "are", "big", "low"],
        &["into", "true", "with", "than", "turn", "roll", "rock", "join", "cast", "give", "down", "back", "null", "gone", "plus", "lies"],
        &["build", "false", "until", "while", "knock", "break", "round", "wrong", "right", "empty", "minus", "times", "shout"],
        &["listen", "return", "bigger", "taking", "silent", "nobody", "strong", "little", "scream"],
        &["whisper", "nothing", "between", "without", "greater", "smaller", "nowhere", "silence"],
        &["continue", "stronger"],
        &[],
        &["mysterious"],
    ];
    const KEYWORDS: &[&str] = &[
        "mysterious", "null", "nothing", "nowhere", "nobody", "gone", "true", "right", "yes", "ok",
        "false", "wrong", "no", "lies", "empty", "silent", "silence", "it", "he", "she", "him", "her",
        "they", "them", "ze", "hir", "zie", "zir", "xe", "xem", "ve", "ver", "plus", "minus",
        "without", "times", "of", "over", "between", "in", "into", "is", "are", "was", "were", "isnt",
        "aint", "arent", "wasnt", "werent", "says", "said", "higher", "greater", "bigger", "stronger",
        "lower", "less", "smaller", "weaker", "high", "great", "big", "strong", "low", "little",
        "small", "weak", "shout", "whisper", "scream", "cut", "split", "shatter", "join", "unite",
        "cast", "burn", "round", "around", "takes", "wants", "return", "give", "send", "with", "put",
        "let", "be", "and", "or", "nor", "not", "as", "than", "if", "else", "while", "until", "build",
        "knock", "up", "down", "say", "listen", "to", "turn", "continue", "break", "take", "top",
        "rock", "roll", "at", "like", "taking", "back", "a", "an", "the", "my", "your", "our",
    ];
    let mut out = String::with_capacity(src.len());
    let mut word = String::new();
    let mut n = 0usize;
    let flush = |word: &mut String, out: &mut String, n: &mut usize| {
        if word.is_empty() {
            return;
        }
        let lower = word.to_lowercase();
        if KEYWORDS.contains(&lower.as_str()) {
            for _ in 0..word.len() {
                out.push('q');
            }
        } else if word.len() < BY_LEN.len() && !BY_LEN[word.len()].is_empty() {
            let pool = BY_LEN[word.len()];
            out.push_str(pool[*n % pool.len()]);
            *n += 1;
        } else {
            out.push_str(word);
        }
        word.clear();
    };
    for c in src.chars() {
        if c.is_ascii_alphabetic() {
            word.push(c);
        } else {
            flush(&mut word, &mut out, &mut n);
            out.push(c);
        }
    }
    flush(&mut word, &mut out, &mut n);
    debug_assert_eq!(out.len(), src.len());
    out
}

/// Parses and lints a decoy text in `buf` (results ignored, panics caught);
/// a generated decoy program is also executed.
/// Says and computes ordinary values of every kind (see the decoy selection).
const WARM_UP: &str = "Listen to Heard\nSay Heard\nListen to Heard\nListen\nSay 0\nSay 1\nSay 0 minus 1\nSay 0.5\nSay 2 over 3\nSay 1000000\nSay \"0\" plus 0\nSay 1 plus \" level\"\nSay true\nSay false\nSay nothing\nSay mysterious\nSay \"\"\nSay \"text\"\nPut 0 into Zero\nBuild Zero up\nKnock Zero down\nSay Zero\nLet Shelf at 0 be \"zero\"\nLet Shelf at \"key\" be \"value\"\nLet Shelf at \"other\" be \"thing\"\nSay Shelf at 0\nJoin Shelf into Glue\nSay Glue\nCut \"a,b\" into Pieces with \",\"\nSay Pieces at 1\nCast \"12\" into Twelve\nSay Twelve\nTurn up Twelve\nEcho takes Sound\nGive back Sound plus Sound\n\nSay Echo taking 0\nSay Echo taking \"x\"\nPut \"ĠġĢģĤĥĦħĨĩĪīĬĭĮįİıĲĳĴĵĶķĸĹĺĻļĽľĿŀŁłŃńŅņŇňŉŊŋŌōŎŏŐőŒœŔŕŖŗŘřŚśŜŝŞşŠšŢţŤťŦŧŨũŪūŬŭŮůŰűŲųŴŵŶŷŸŹźŻżŽž\" into Cousins\nSay Cousins at 33\nCut Cousins into Bits\nSay Bits at 65\nJoin Bits\nSay 256 plus 0\nSay 65536 plus 48\nSay 0 minus 0\nSay \"TEXT\"\nSay \" text \"\n";

/// The process warm-up (see `Property::process_warm_up`): a fixed set of
/// programs - the warm-up program, programs that listen (input starting with
/// a byte order mark, CR LF line ends), programs that fail in the common ways
/// at parse time and at run time, lint bait - and forty generated ones, each
/// parsed, linted and run once in this process.
fn warm_up_process() {
    let fixed: &[(&str, &[u8])] = &[
        (WARM_UP, b"decoy line\n"),
        ("Listen to Line\nSay Line\nListen to Line\nSay Line\nListen\nListen to Line\nSay Line\n", "\u{feff}first\nsecond\r\nthird".as_bytes()),
        ("Put \"41\" into Count\nBuild Count up\n", b""),
        ("Say Nobody Home\n", b""),
        ("Put 1 into Arr at true\n", b""),
        ("Say 1 is greater than \"x\"\n", b""),
        ("Say \"never closed\n", b""),
        ("Say under_score and ab1c @\n", b""),
        ("Put into\n", b""),
        ("Put 5 into Five\nPut 5 into Five\nSay Five\nSay Five\nPut \"lit\" into Lit\n", b""),
        ("Let Box at \"b\" be 1\nLet Box at \"a\" be 2\nJoin Box into Glue\n", b""),
        ("Cast \"zz\" into Number\n", b""),
        ("Knock \"7\" down\n", b""),
    ];
    let cfg = Config {
        hash_seed: 0,
        fresh_thread: false,
        heap_junk: 0,
        sched: Schedule::plain(),
        run_using: false,
    };
    for (src, input) in fixed {
        let _ = observe(src, input, &cfg);
    }
    for k in 0..40u64 {
        let mut t = Tape::record(0x5eed_0000 + k);
        let (src, input) = match k % 3 {
            0 => {
                let p = gen_dict_program(&mut t);
                (p.source, p.input)
            }
            1 => {
                let s = crate::soup::gen_soup(&mut t);
                (s.source, s.input)
            }
            _ => {
                let sc = crate::c08::gen_scenario(&mut t);
                (sc.source, sc.input)
            }
        };
        let _ = observe(&src, &input, &cfg);
    }
}

/// Unusual twins of ordinary values, said, computed and concatenated before
/// the ordinary ones: the negative zero, a number that is almost a small
/// integer, text that looks like a number.
const WARM_UP_TWINS: &str = "Put 0 times -1 into Twin\nSay Twin\nSay \"level \" plus Twin\nSay Twin plus \" level\"\nSay 0.1 plus 0.2\nSay \"n\" plus 0.30000000000000004\nSay 1 over 3 times 3\nSay \"1\" plus 1\nSay 255 plus 1\nSay \"k\" plus 256\n";

const NEIGHBOUR: &str = "Put 0 into Ticks\nWhile Ticks is less than 500000\nBuild Ticks up\n\nSay Ticks\n";
const NEIGHBOUR_EXPECTED: &str = "Ok, said 500000";
static IN_PROCESS: std::sync::RwLock<()> = std::sync::RwLock::new(());

/// Observes the program once more while three other threads of this process
/// each run the neighbour program (all four start together). Returns the
/// observation and how each neighbour ended.
fn observe_among_neighbours(source: &str, input: &[u8], cfg: &Config) -> (Obs, Vec<String>) {
    let barrier = std::sync::Barrier::new(4);
    std::thread::scope(|s| {
        let handles: Vec<_> = (0..3u64)
            .map(|k| {
                let barrier = &barrier;
                std::thread::Builder::new()
                    .stack_size(16 << 20)
                    .spawn_scoped(s, move || {
                        barrier.wait();
                        match guarded(|| {
                            rrss::verif_seams::set_hash_seed(k + 1);
                            let program = match rrss::frontend::parser::parse(NEIGHBOUR) {
                                Ok(p) => p,
                                Err(e) => return format!("parse error: {}", e),
                            };
                            let mut out = Vec::new();
                            match rrss::exec::exec_using(&b""[..], &mut out, &program) {
                                Ok(()) => format!("Ok, said {}", String::from_utf8_lossy(&out).trim_end()),
                                Err(e) => format!("Err: {}", e),
                            }
                        }) {
                            Ok(t) => t,
                            Err(m) => format!("PANIC: {}", m),
                        }
                    })
                    .expect("spawn")
            })
            .collect();
        barrier.wait();
        let (obs, _, _) = observe(source, input, cfg);
        let neighbours = handles
            .into_iter()
            .map(|h| h.join().unwrap_or_else(|_| "neighbour thread died".to_string()))
            .collect();
        (obs, neighbours)
    })
}

fn run_decoy(buf: &mut String, decoy: &str, execute: bool) {
    buf.clear();
    buf.push_str(decoy);
    let text: &str = buf;
    let _ = guarded(|| {
        if let Ok(program) = rrss::frontend::parser::parse(text) {
            let _ = guarded(|| rrss::linter::standard_linter().run(&program));
            if execute {
                let mut out = Vec::new();
                let _ = rrss::exec::exec_using(&b"decoy line\n"[..], &mut out, &program);
            }
        }
    });
}

// ------------------------------------------------------------ observation

#[derive(Clone, Debug, PartialEq, Eq)]
pub struct Obs {
    pub parse: String,
    pub output: Vec<u8>,
    pub result: String,
    pub lint: String,
    /// the command-line layer's entry points on the same text:
    /// cli::linter::lint, cli::linter::run, cli::parser::run
    pub cli: String,
}

impl Obs {
    pub fn to_json(&self) -> J {
        J::obj(vec![
            ("parse", J::s(self.parse.clone())),
            ("output", J::S(render_bytes(&self.output))),
            ("result", J::s(self.result.clone())),
            ("lint", J::s(self.lint.clone())),
            ("cli_entry_points", J::s(self.cli.clone())),
        ])
    }
    pub fn hash(&self) -> u64 {
        let mut h = hash_bytes(self.parse.as_bytes());
        h = hash_combine(h, hash_bytes(&self.output));
        h = hash_combine(h, hash_bytes(self.result.as_bytes()));
        h = hash_combine(h, hash_bytes(self.cli.as_bytes()));
        hash_combine(h, hash_bytes(self.lint.as_bytes()))
    }
}

#[derive(Clone, Debug)]
pub struct Config {
    pub hash_seed: u64,
    pub fresh_thread: bool,
    pub heap_junk: u64,
    pub sched: Schedule,
    pub run_using: bool,
}

impl Config {
    /// How far down the native stack the observation runs (derived from the
    /// hasher seed; the first configuration, seed 0, runs at the top).
    pub fn stack_pad_kib(&self) -> u32 {
        if self.hash_seed == 0 {
            0
        } else {
            [0u32, 96, 700, 0, 1800, 300, 0, 1100][(self.hash_seed % 8) as usize]
        }
    }

    pub fn to_json(&self) -> J {
        J::obj(vec![
            ("native_stack_depth_kib", J::U(self.stack_pad_kib() as u64)),
            ("hasher_seed", J::U(self.hash_seed)),
            ("fresh_thread", J::Bool(self.fresh_thread)),
            ("heap_perturbation_seed", J::U(self.heap_junk)),
            ("entry", J::s("parse + exec_using, and cli::exec::run_using separately")),
            ("schedule", self.sched.to_json()),
        ])
    }
}

fn plain(text: String) -> String {
    String::from_utf8_lossy(&procworld::strip_sgr(text.as_bytes())).into_owned()
}

/// What the command-line layer's library entry points return for the text.
fn cli_text(source: &str) -> String {
    let mut s = String::new();
    s.push_str("cli::linter::lint -> ");
    s.push_str(&match guarded(|| match rrss::cli::linter::lint(source) {
        Ok(r) => r
            .diags
            .iter()
            .map(|d| format!("line {}|{}|{}", d.line, d.issue, d.suggestions.join("|")))
            .collect::<Vec<_>>()
            .join("\n"),
        Err(e) => format!("Err: {}", plain(e.to_string())),
    }) {
        Ok(t) => t,
        Err(m) => format!("PANIC: {}", m),
    });
    s.push_str("\ncli::linter::run -> ");
    s.push_str(&match guarded(|| match rrss::cli::linter::run(source) {
        Ok(o) => plain(o.to_string()),
        Err(e) => format!("Err: {}", plain(e.to_string())),
    }) {
        Ok(t) => t,
        Err(m) => format!("PANIC: {}", m),
    });
    s.push_str("\ncli::parser::run -> ");
    s.push_str(&match guarded(|| match rrss::cli::parser::run(source) {
        Ok(o) => {
            let t = plain(o.to_string());
            format!("{} bytes, hash {:016x}", t.len(), hash_bytes(t.as_bytes()))
        }
        Err(e) => format!("Err: {}", plain(e.to_string())),
    }) {
        Ok(t) => t,
        Err(m) => format!("PANIC: {}", m),
    });
    s
}

fn diags_text(r: &rrss::linter::LinterResult) -> String {
    let mut s = String::new();
    for d in &r.diags {
        s.push_str(&format!("line {}|{}|{}\n", d.line, d.issue, d.suggestions.join("|")));
    }
    s
}

/// The lint report of a fresh standard linter, followed - if it differs - by
/// what the same Linter value reports when it is run on the program a second
/// time (a repeated run is a repeated run, whoever owns the linter).
fn lint_text(program: &rrss::frontend::ast::Program) -> String {
    let mut linter = rrss::linter::standard_linter();
    let first = diags_text(&linter.run(program));
    let second = diags_text(&linter.run(program));
    if first == second {
        first
    } else {
        format!(
            "{}{}{}",
            first, SECOND_RUN_MARK, second
        )
    }
}

const SECOND_RUN_MARK: &str = "== second run of the same Linter value reports instead ==\n";

/// One observation of (source, input) under a configuration. Returns the
/// observation and the dictionary-order probe log.
pub fn observe(source: &str, input: &[u8], cfg: &Config) -> (Obs, Vec<String>, u64) {
    let mut buf = String::with_capacity(source.len());
    observe_in(&mut buf, source, None, input, cfg)
}

/// As `observe`, with the program text placed in the caller's reusable buffer
/// (so that every run of a scenario reads its text at the same address), and
/// optionally a decoy text processed first, in the same buffer and on the
/// same thread as the real run.
pub fn observe_in(
    buf: &mut String,
    source: &str,
    decoy: Option<(&str, bool)>,
    input: &[u8],
    cfg: &Config,
) -> (Obs, Vec<String>, u64) {
    crate::driver::heartbeat();
    let slot = crate::driver::current_slot();
    let mut inner = || -> (Obs, Vec<String>, u64) {
        crate::driver::adopt_slot(slot);
        if let Some((d, execute)) = decoy {
            run_decoy(buf, d, execute);
        }
        buf.clear();
        buf.push_str(source);
        let source: &str = buf;
        // heap perturbation: junk allocations held across the run
        let mut junk: Vec<Vec<u8>> = Vec::new();
        if cfg.heap_junk != 0 {
            let mut r = Rng::new(cfg.heap_junk);
            for _ in 0..(8 + r.below(40)) {
                junk.push(vec![0u8; 1 + r.below(700) as usize]);
            }
        }
        rrss::verif_seams::set_hash_seed(cfg.hash_seed);
        rrss::verif_seams::enable_dict_order_probe(true);
        let _ = rrss::verif_seams::take_dict_order_probe();
        let world = World::new(input.to_vec(), cfg.sched.clone(), 1_000_000);
        let r = SimReader(world.clone());
        let w = SimWriter(world.clone());
        let res = guarded(|| {
            match rrss::frontend::parser::parse(source) {
                Err(e) => (format!("Err: {}", e), RunResult::Ok, String::new()),
                Ok(program) => {
                    let lint = match guarded(|| lint_text(&program)) {
                        Ok(l) => l,
                        Err(m) => format!("PANIC: {}", m),
                    };
                    let result = match rrss::exec::exec_using(r, w, &program) {
                        Ok(()) => RunResult::Ok,
                        Err(e) => RunResult::Err(e.to_string()),
                    };
                    ("Ok".to_string(), result, lint)
                }
            }
        });
        let probe = rrss::verif_seams::take_dict_order_probe();
        rrss::verif_seams::enable_dict_order_probe(false);
        let mut cli = cli_text(source);
        // the command-line layer's way of running a program is an entry point
        // of its own: observed separately in every configuration (what it
        // reports is compared with what it reports in the other
        // configurations, not with the interpreter's own error text)
        {
            let world2 = World::new(input.to_vec(), cfg.sched.clone(), 1_000_000);
            let (r2, w2) = (SimReader(world2.clone()), SimWriter(world2.clone()));
            rrss::verif_seams::set_hash_seed(cfg.hash_seed);
            let verdict = match guarded(|| match rrss::cli::exec::run_using(r2, w2, source) {
                Ok(_) => "Ok".to_string(),
                Err(e) => format!("Err: {}", plain(e.to_string())),
            }) {
                Ok(t) => t,
                Err(m) => format!("PANIC: {}", m),
            };
            let wb2 = world2.borrow();
            cli.push_str(&format!(
                "\ncli::exec::run_using -> {} after {} bytes of output, hash {:016x}",
                verdict,
                wb2.accepted.len(),
                hash_bytes(&wb2.accepted)
            ));
        }
        drop(junk);
        let wb = world.borrow();
        let (parse, result, lint) = match res {
            Ok((p, r, l)) => (
                p,
                match r {
                    RunResult::Ok => "Ok".to_string(),
                    RunResult::Err(e) => format!("Err: {}", e),
                    RunResult::Panic(m) => format!("PANIC: {}", m),
                },
                l,
            ),
            Err(msg) => ("?".to_string(), format!("PANIC: {}", msg), String::new()),
        };
        (
            Obs {
                parse,
                output: wb.accepted.clone(),
                result,
                lint,
                cli,
            },
            probe,
            wb.calls as u64,
        )
    };
    // the whole observation runs this much further down the native stack
    // (stack addresses are addresses too)
    let pad = cfg.stack_pad_kib();
    if cfg.fresh_thread {
        std::thread::scope(|s| {
            std::thread::Builder::new()
                .stack_size(32 << 20)
                .spawn_scoped(s, move || with_stack_pad(pad, &mut inner))
                .expect("spawn")
                .join()
                .expect("observer thread")
        })
    } else {
        with_stack_pad(pad, &mut inner)
    }
}

/// Calls `f` from a frame `kib` KiB further down the stack.
#[inline(never)]
fn with_stack_pad<R>(kib: u32, f: &mut dyn FnMut() -> R) -> R {
    if kib == 0 {
        return f();
    }
    let mut frame = [0u8; 4096];
    std::hint::black_box(&mut frame);
    let r = with_stack_pad(kib.saturating_sub(4), f);
    std::hint::black_box(&frame);
    r
}

fn benign(t: &mut Tape) -> Schedule {
    let mut s = Schedule::plain();
    match t.draw(3) {
        0 => {}
        1 => {
            s.chunk = ChunkMode::Byte;
            s.short_writes = true;
        }
        _ => {
            s.chunk = ChunkMode::Random;
            s.short_writes = true;
            s.eintr_read_pm = 200;
            s.eintr_write_pm = 200;
        }
    }
    s.seed = t.draw(1 << 30) as u64;
    s
}

fn first_diff_field(a: &Obs, b: &Obs) -> &'static str {
    if a.parse != b.parse {
        "parse result / parse error text"
    } else if a.output != b.output {
        "output bytes"
    } else if a.result != b.result {
        "Ok/Err or runtime error text"
    } else if a.lint != b.lint {
        "lint report"
    } else {
        "result of a command-line-layer entry point (cli::linter::lint / cli::linter::run / cli::parser::run)"
    }
}

impl Property for C10 {
    fn id(&self) -> &'static str {
        "C10"
    }

    fn process_warm_up(&self) {
        // on a thread of its own with a deep stack, like every scenario
        std::thread::Builder::new()
            .stack_size(64 << 20)
            .spawn(warm_up_process)
            .expect("spawn")
            .join()
            .expect("process warm-up");
    }

    fn plan(&self, tier: Tier) -> Plan {
        match tier {
            Tier::Quick => Plan {
                scenarios: 1500,
                time_cap_s: 60,
                shrink_budget: 800,
            },
            Tier::Thorough => Plan {
                scenarios: 60_000,
                time_cap_s: 600,
                shrink_budget: 2000,
            },
        }
    }

    fn evidence_info(&self) -> EvidenceInfo {
        EvidenceInfo {
            level: "exploration",
            rule: "A scenario is a generated program (arrays given 2-6 non-numeric keys with string/non-string/nested values, then joined, printed, copied, passed to functions, compared, used as keys, cast, built up; some with lint findings, parse errors, listens; a third of the scenarios are C08-style say/listen scripts instead) plus an input, observed under K configurations (quick 8, thorough 32) that vary the dictionary hasher seed (hook), worker thread vs fresh thread (new OS-random keys for any un-hooked map), heap layout, and benign stream schedules; a sample of scenarios is also run as processes of the hooked binary: `exec` three times with different hasher seeds, environments and stdin kinds, and `lint` and `parse` six times each (the keys a process draws from the operating system for un-hooked hash tables differ between them). All observations (output bytes, Ok/Err, error text, parse error text, lint report, what the command-line layer's entry points cli::exec::run_using / cli::linter / cli::parser return; for processes stdout, SGR-stripped stderr, exit status) must be identical. evaluations = in-process executions + process spawns. A scenario is non-trivial when its runs produced at least two distinct raw dictionary iteration orders (measured by the probe in the hook), i.e. the perturbation really reached a dictionary; distinct = distinct program text + input.".into(),
            assumptions: vec![
                "The hooked HashMap (src/verif_seams.rs) stands in for std's RandomState-keyed map: same hashbrown table, different key source; maps not behind the hook (lexer keyword table) are perturbed only by the fresh-thread and process arms, whose seeds the harness does not control.".into(),
                "Debug renderings are not compared (not messages); NaN-safe comparison by text.".into(),
                "Address-space randomisation is left on for spawned processes (addresses differ between spawns); it is not separately controlled.".into(),
            ],
            components_real: vec![
                "rrss parser, linter, interpreter, error Display (in-process)".into(),
                "the rrss binary built from the working tree with the hook (process arm)".into(),
            ],
            components_stub: vec![
                "hasher key source (seeded seam instead of OS randomness)".into(),
                "input/output streams (simulated, benign schedules only)".into(),
                "clocks of the fresh process of every scenario and of one process of the process arm: read through a preloaded shim (sim/clockshim) that skews the wall clock and lets 0.7-90 s pass per reading".into(),
            ],
            step_unit: "stream calls in-process + process spawns",
            history_measure: "distinct (common observation, number of distinct dictionary-order probe logs seen across the configurations of the scenario)",
        }
    }

    fn run(&self, tape: &mut Tape, ctx: &Ctx, stats: &mut Stats) -> ScenarioResult {
        // thorough only, a handful of scenarios: a program that keeps one loop
        // busy for several seconds of real time, run as three processes
        // (whatever depends on how long something takes shows up here)
        if ctx.tier == Tier::Thorough && ctx.index % 15_000 == 7 {
            let n = 1_100_000 + tape.draw(200_000);
            let source = format!(
                "Counter is 0\nWhile Counter is less than {}\nBuild Counter up\n\nSay Counter\nSay \"done\"\n",
                n
            );
            let key = hash_bytes(source.as_bytes());
            let mut res = ScenarioResult {
                violation: None,
                executions: 15,
                steps: 3,
                key,
                nontrivial: false,
                histories: vec![key],
                sample: None,
                digest: key,
            };
            stats.inc("probe.long_running_loop_as_processes");
            match process_arm(&source, b"", None, tape, stats) {
                Ok(Some((rule, detail, render, h))) => {
                    res.violation = Some(Violation {
                        rule: rule.into(),
                        detail,
                        render,
                        log_hash: h,
                        tags: vec!["process-arm".into(), "long-running".into()],
                    });
                }
                Ok(None) => {}
                Err(e) => {
                    eprintln!("HARNESS ERROR (process arm): {}", e);
                    std::process::exit(2);
                }
            }
            return res;
        }
        // workload: dictionary programs, or (one third) I/O scripts
        let (source, input, features): (String, Vec<u8>, Vec<&'static str>) = if tape.chance(1, 4) {
            let sc = crate::c08::gen_scenario(tape);
            (sc.source, sc.input, vec!["io script"])
        } else if tape.chance(1, 3) {
            // any program is workload here: the runs are each other's reference
            let s = crate::soup::gen_soup(tape);
            (s.source, s.input, vec!["soup program"])
        } else {
            let p = gen_dict_program(tape);
            (p.source, p.input, p.features)
        };
        if std::env::var("VERIF_DUMP").is_ok() {
            eprintln!("--- program ---\n{}--- input ---\n{}---", source, render_bytes(&input));
        }
        let key = hash_combine(hash_bytes(source.as_bytes()), hash_bytes(&input));
        let mut res = ScenarioResult {
            violation: None,
            executions: 0,
            steps: 0,
            key,
            nontrivial: false,
            histories: Vec::new(),
            sample: None,
            digest: key,
        };
        // in-process observations of different scenarios go on side by side
        // (read lock); the concurrent-neighbours part of a scenario (rule
        // D5) has the process to itself (write lock), so that the runs going
        // on at the same time are exactly the four it starts
        let side_by_side = IN_PROCESS.read().unwrap_or_else(|e| e.into_inner());
        let k = if ctx.tier == Tier::Thorough { 32 } else { 8 };
        let mut configs: Vec<Config> = Vec::new();
        configs.push(Config {
            hash_seed: 0,
            fresh_thread: false,
            heap_junk: 0,
            sched: Schedule::plain(),
            run_using: false,
        });
        for i in 1..k {
            configs.push(Config {
                hash_seed: 1 + tape.draw(u32::MAX - 1) as u64,
                fresh_thread: i % 4 == 3,
                heap_junk: if tape.chance(1, 2) { 1 + tape.draw(1000) as u64 } else { 0 },
                sched: benign(tape),
                run_using: tape.chance(1, 4),
            });
        }
        let mut base: Option<Obs> = None;
        let mut orders: BTreeSet<String> = BTreeSet::new();
        let mut per_site_orders: BTreeSet<(usize, String)> = BTreeSet::new();
        // every run of the scenario reads its program text from one reusable
        // buffer (same address each time); before some runs a decoy is
        // processed in that buffer on the same thread: a text of the same
        // layout but other content, or another generated program
        let same_shape = same_shape_decoy(&source);
        let other_program = gen_dict_program(tape).source;
        let mut buf = String::with_capacity(source.len().max(other_program.len()) + 8);
        // a second buffer, alive at the same time (so at another address), in
        // which nothing but the program itself is ever processed: the clean
        // reference for state keyed by where text lies
        let warm_up_twins_first = format!("{}{}", WARM_UP_TWINS, WARM_UP);
        let mut clean_buf = String::with_capacity(source.len().max(other_program.len()) + 8);
        // and a third one in which the decoy is the very first thing ever
        // processed, before the program (state of the kind "the first answer
        // for this place wins"); used by configuration #1 only
        let mut trap_buf = String::with_capacity(source.len().max(other_program.len()) + 8);
        for (ci, cfg) in configs.iter().enumerate() {
            let use_clean = ci % 4 == 0 && ci > 0;
            let use_trap = ci == 1;
            let decoy: Option<(&str, bool)> = match ci % 4 {
                0 => None,
                // (a configuration on a fresh thread: the thread's first
                // program is a warm-up that says and computes ordinary values
                // of every kind, so that whatever the code under test keeps
                // per thread has been filled by somebody else's values)
                3 if ci % 8 == 7 => {
                    stats.inc("fault.configured.decoy_warm_up_program_run_first_on_fresh_thread");
                    // (in every other scenario the warm-up meets the negative
                    // zero and other unusual twins of ordinary values first)
                    if key % 2 == 0 {
                        Some((WARM_UP, true))
                    } else {
                        Some((&warm_up_twins_first, true))
                    }
                }
                1 | 3 => {
                    stats.inc("fault.configured.decoy_same_layout_parsed_first");
                    Some((&same_shape, false))
                }
                _ => {
                    stats.inc("fault.configured.decoy_other_program_run_first");
                    Some((&other_program, true))
                }
            };
            let (obs, probe, steps) = observe_in(
                if use_clean {
                    &mut clean_buf
                } else if use_trap {
                    &mut trap_buf
                } else {
                    &mut buf
                },
                &source,
                decoy,
                &input,
                cfg,
            );
            res.executions += 1;
            res.steps += steps;
            res.digest = hash_combine(res.digest, obs.hash());
            stats.inc("fault.configured.hasher_seed");
            if cfg.fresh_thread {
                stats.inc("fault.configured.fresh_thread");
            }
            if cfg.heap_junk != 0 {
                stats.inc("fault.configured.heap_perturbation");
            }
            if cfg.stack_pad_kib() != 0 {
                stats.inc("fault.configured.native_stack_depth");
            }
            for (n, p) in probe.iter().enumerate() {
                per_site_orders.insert((n, p.clone()));
            }
            orders.insert(probe.join(";"));
            match &base {
                None => base = Some(obs),
                Some(b) => {
                    if *b != obs {
                        let field = first_diff_field(b, &obs);
                        let mut tags: Vec<String> = features.iter().map(|f| f.to_string()).collect();
                        tags.push(format!("differs:{}", field));
                        let unhooked_only = cfg.fresh_thread && {
                            // re-run on this thread with the same hooked seed
                            let mut c2 = cfg.clone();
                            c2.fresh_thread = false;
                            let (again, _, _) = observe_in(&mut buf, &source, decoy, &input, &c2);
                            again == *b
                        };
                        if unhooked_only {
                            tags.push("unhooked-entropy".into());
                        }
                        res.violation = Some(Violation {
                            rule: "C10.D1-observations-differ".into(),
                            detail: format!(
                                "configuration #{} differs from configuration #0 in: {}{}",
                                ci,
                                field,
                                if unhooked_only { " (only when run on a fresh thread: per-thread state or an entropy source outside the hook)" } else { "" }
                            ),
                            render: J::obj(vec![
                                ("program", J::s(source.clone())),
                                ("input", J::S(render_bytes(&input))),
                                ("configuration_a", configs[0].to_json()),
                                ("observation_a", b.to_json()),
                                ("configuration_b", cfg.to_json()),
                                ("observation_b", obs.to_json()),
                                ("dict_order_probe_b", J::A(probe.iter().map(|p| J::s(p.clone())).collect())),
                            ]),
                            // the differing bytes, and even which observation
                            // differs first, may be irreproducible by nature
                            // (addresses, clocks, OS-seeded hashers): the
                            // identity of the violation is the scenario
                            log_hash: hash_combine(key, 0xD1),
                            tags,
                        });
                        return res;
                    }
                }
            }
        }
        let base = base.unwrap();
        if base.lint.contains(SECOND_RUN_MARK) {
            let mut tags: Vec<String> = features.iter().map(|f| f.to_string()).collect();
            tags.push("linter-reuse".into());
            res.violation = Some(Violation {
                rule: "C10.D3-second-run-of-the-same-linter-differs".into(),
                detail: "Linter::run on the same Linter value and the same program reports different diagnostics the second time".into(),
                render: J::obj(vec![
                    ("program", J::s(source.clone())),
                    ("lint_reports", J::s(base.lint.clone())),
                ]),
                log_hash: hash_combine(key, 0xD3),
                tags,
            });
            return res;
        }
        if base.result.starts_with("PANIC") {
            stats.inc("count.library_panics_identically");
        }
        // reach: did the perturbation produce different raw dictionary orders?
        let mut sites: BTreeSet<usize> = BTreeSet::new();
        let mut multi = false;
        for (n, _) in &per_site_orders {
            if !sites.insert(*n) {
                multi = true;
            }
        }
        if multi {
            stats.inc("fault.fired.hasher_seed_changed_a_dict_order");
            res.nontrivial = true;
        }
        for f in &features {
            stats.inc(&format!("probe.{}", f.replace(' ', "_")));
        }
        if base.result.starts_with("Err") {
            stats.inc("probe.runtime_error");
            // which kind of error (the message up to the first value in it)
            let kind: String = base.result[5..]
                .chars()
                .take_while(|c| c.is_ascii_alphabetic() || *c == ' ')
                .collect();
            let kind: Vec<&str> = kind.split_whitespace().take(3).collect();
            stats.inc(&format!("count.runtime_error.{}", kind.join("_")));
            if let Some(q) = base.result.find(" value \"") {
                let v = &base.result[q + 8..];
                if v.trim_end_matches('"').parse::<f64>().is_ok() {
                    stats.inc("probe.operation_refused_on_numeric_looking_text");
                }
            }
        }
        res.histories.push(hash_combine(base.hash(), orders.len() as u64));

        // runs going on at the same time on other threads of this process
        // (rule D5), for a sample of the scenarios: three neighbours count to
        // 500 000 each while the program is observed once more; the
        // observation must be the usual one and every neighbour must get to
        // the end with the right number
        drop(side_by_side);
        let nth_neighbours = if ctx.tier == Tier::Thorough { 100 } else { 500 };
        if ctx.index % nth_neighbours == 3 {
            stats.inc("fault.configured.concurrent_runs_on_other_threads");
            stats.inc("fault.fired.concurrent_runs_on_other_threads");
            let (obs, neighbours) = {
                let _alone = IN_PROCESS.write().unwrap_or_else(|e| e.into_inner());
                crate::driver::heartbeat();
                observe_among_neighbours(&source, &input, &configs[0])
            };
            res.executions += 4;
            let mut detail: Option<String> = None;
            if obs != base {
                detail = Some(format!(
                    "observed while three other threads were running programs, the program differs from itself run alone in: {}",
                    first_diff_field(&base, &obs)
                ));
            } else if let Some(bad) = neighbours.iter().find(|n| n.as_str() != NEIGHBOUR_EXPECTED) {
                detail = Some(format!(
                    "a program counting to 500000 on another thread at the same time ended with {:?} instead of {:?}",
                    bad, NEIGHBOUR_EXPECTED
                ));
            }
            if let Some(detail) = detail {
                let mut tags: Vec<String> = features.iter().map(|f| f.to_string()).collect();
                tags.push("concurrent-runs".into());
                res.violation = Some(Violation {
                    rule: "C10.D5-disturbed-by-concurrent-runs".into(),
                    detail,
                    render: J::obj(vec![
                        ("program", J::s(source.clone())),
                        ("input", J::S(render_bytes(&input))),
                        ("observation_alone", base.to_json()),
                        ("observation_among_neighbours", obs.to_json()),
                        ("neighbour_program", J::s(NEIGHBOUR)),
                        ("neighbours_ended_with", J::A(neighbours.iter().map(|n| J::s(n.clone())).collect())),
                    ]),
                    log_hash: hash_combine(key, 5),
                    tags,
                });
                return res;
            }
        }

        // process arm: the whole of it for a sample of the scenarios, one
        // fresh process (rule D4) for every scenario
        let nth = if ctx.tier == Tier::Thorough { 8 } else { 16 };
        if ctx.index % nth != 0 {
            match fresh_process_only(&source, &input, &base, stats) {
                Ok(Some((rule, detail, render, h))) => {
                    let mut tags: Vec<String> = features.iter().map(|f| f.to_string()).collect();
                    tags.push("process-arm".into());
                    res.violation = Some(Violation {
                        rule: rule.into(),
                        detail,
                        render,
                        log_hash: h,
                        tags,
                    });
                    return res;
                }
                Ok(None) => {
                    res.executions += 1;
                    res.steps += 1;
                }
                Err(e) => {
                    eprintln!("HARNESS ERROR (process arm): {}", e);
                    std::process::exit(2);
                }
            }
        }
        if ctx.index % nth == 0 {
            match process_arm(&source, &input, Some(&base), tape, stats) {
                Ok(Some((rule, detail, render, h))) => {
                    let mut tags: Vec<String> = features.iter().map(|f| f.to_string()).collect();
                    tags.push("process-arm".into());
                    res.violation = Some(Violation {
                        rule: rule.into(),
                        detail,
                        render,
                        log_hash: h,
                        tags,
                    });
                    return res;
                }
                Ok(None) => {
                    res.executions += 15;
                    res.steps += 3;
                }
                Err(e) => {
                    eprintln!("HARNESS ERROR (process arm): {}", e);
                    std::process::exit(2);
                }
            }
        }
        if ctx.want_sample {
            res.sample = Some(J::obj(vec![
                ("program", J::s(source.clone())),
                ("input", J::S(render_bytes(&input))),
                ("observation_common_to_all_configurations", base.to_json()),
                ("configurations", J::U(configs.len() as u64)),
                ("distinct_probe_logs", J::U(orders.len() as u64)),
                ("example_configuration", configs[configs.len() - 1].to_json()),
            ]));
        }
        res
    }
}

/// A fresh `rrss exec` process against what this (long-lived) process
/// observed for the same program and input through the library: the same
/// output bytes, the same success or error, the same error message.
fn fresh_process_disagrees(obs: &Obs, r: &procworld::ProcResult) -> Option<String> {
    if r.timed_out || obs.result.starts_with("PANIC") || obs.parse == "?" {
        return None;
    }
    if obs.result.contains("simulated: ") {
        return None;
    }
    let stderr = String::from_utf8_lossy(&r.stderr).into_owned();
    if let Some(msg) = obs.parse.strip_prefix("Err: ") {
        // (the exit status is not compared: this tool reports errors in
        // programs on standard error and still exits with 0)
        if !stderr.contains(msg) {
            return Some(format!(
                "in this process the program does not parse ({:?}); a fresh process does not report that on standard error",
                msg
            ));
        }
        return None;
    }
    if r.stdout != obs.output {
        return Some(format!(
            "a fresh process writes {} bytes to standard output, the same program and input run in this process wrote {} bytes (or other bytes)",
            r.stdout.len(),
            obs.output.len()
        ));
    }
    // what the command-line layer's own entry point returned in this process
    // for the failing run is the whole report: the fresh process prints it,
    // and the line ends where it ends
    if let Some(at) = obs.cli.rfind("\ncli::exec::run_using -> Err: ") {
        let rest = &obs.cli[at + "\ncli::exec::run_using -> Err: ".len()..];
        if let Some(end) = rest.rfind(" after ") {
            let report = rest[..end].trim_end_matches('\n');
            if !report.is_empty() {
                // every line of the report is a whole line of the child's
                // standard error, in this order (the tool may put lines of
                // its own in between: which file, say)
                let mut child_lines = stderr.split('\n').map(|l| l.trim_end_matches('\r'));
                let found = report
                    .split('\n')
                    .map(|l| l.trim_end_matches('\r'))
                    .all(|want| child_lines.any(|have| have == want));
                if !found {
                    return Some(format!(
                        "run through the command-line layer in this process the program fails with the report {:?}; a fresh process prints another report on standard error",
                        report
                    ));
                }
            }
        }
    }
    match obs.result.strip_prefix("Err: ") {
        Some(msg) => {
            if !stderr.contains(msg) {
                return Some(format!(
                    "run in this process the program fails with {:?}; a fresh process reports something else on standard error",
                    msg
                ));
            }
        }
        None => {
            let low = stderr.to_lowercase();
            if r.code != Some(0) || low.contains("runtime error") || low.contains("parse error") {
                return Some(format!(
                    "run in this process the program succeeds; a fresh process exits with {:?} and {} bytes on standard error",
                    r.code,
                    r.stderr.len()
                ));
            }
        }
    }
    None
}

fn fresh_process_only(
    source: &str,
    input: &[u8],
    obs: &Obs,
    stats: &mut Stats,
) -> Result<Option<(&'static str, String, J, u64)>, String> {
    let scratch = Scratch::new().map_err(|e| e.to_string())?;
    let file = scratch
        .file("prog.rock", source.as_bytes())
        .map_err(|e| e.to_string())?;
    let spec = ProcSpec {
        args: vec!["exec".into(), file.clone().into_os_string()],
        env: {
            // the fresh process also lives at another time, and time passes
            // quickly there (clock seam): nothing observable depends on it
            let mut env = vec![("RRSS_VERIF_HASH_SEED".to_string(), "0".to_string())];
            let skew = procworld::clock_env_for(hash_bytes(source.as_bytes()));
            if !skew.is_empty() {
                stats.inc("fault.configured.clock_skew_and_fast_time");
                stats.inc("fault.fired.clock_skew_and_fast_time");
            }
            env.extend(skew);
            env
        },
        cwd: scratch.path.clone(),
        stdin: input.to_vec(),
        stdin_kind: StdinKind::File,
        stdin_cuts: Vec::new(),
        shared_out_err: false,
        removed_cwd: false,
        stalled_stdout_reader_ms: 0,
    };
    let mut r = procworld::run(&spec, &scratch, "c10-fresh")?;
    r.stderr = procworld::neutralise_panic_thread_id(&procworld::strip_sgr(&r.stderr));
    stats.inc("fault.configured.process_spawn");
    stats.inc("fault.fired.process_spawn");
    stats.inc("count.process_arm.fresh_process_only");
    Ok(fresh_process_disagrees(obs, &r).map(|detail| {
        (
            "C10.D4-fresh-process-differs-from-long-lived-process",
            detail,
            J::obj(vec![
                ("program", J::s(source.to_string())),
                ("input", J::S(render_bytes(input))),
                ("in_process_observation", obs.to_json()),
                ("process", J::s("rrss exec prog.rock, standard input from a file, RRSS_VERIF_HASH_SEED=0")),
                ("process_result", r.to_json()),
            ]),
            hash_combine(hash_combine(hash_bytes(source.as_bytes()), hash_bytes(input)), 4),
        )
    }))
}

fn process_arm(
    source: &str,
    input: &[u8],
    in_process: Option<&Obs>,
    tape: &mut Tape,
    stats: &mut Stats,
) -> Result<Option<(&'static str, String, J, u64)>, String> {
    let scratch = Scratch::new().map_err(|e| e.to_string())?;
    let file = scratch
        .file("prog.rock", source.as_bytes())
        .map_err(|e| e.to_string())?;
    // linting and parsing in separate processes: the report and the printed
    // tree are functions of the source text alone
    for sub in ["lint", "parse"] {
        let mut first: Option<procworld::ProcResult> = None;
        // (what a process draws from the operating system for its own hash
        // tables is not behind a seam: six processes make a dependence on it
        // show, and show again on replay, with high probability)
        for i in 0..6 {
            let spec = ProcSpec {
                args: vec![sub.into(), file.clone().into_os_string()],
                env: {
                    let mut env = vec![("RRSS_VERIF_HASH_SEED".to_string(), (i * 7919).to_string())];
                    if i == 1 || i == 2 {
                        // (first the processes whose clocks the simulator
                        // owns: a dependence on time shows there every time)
                        env.extend(procworld::clock_env_for(
                            hash_bytes(source.as_bytes()).wrapping_add(i as u64 * 0x1_0000_0001),
                        ));
                    }
                    env
                },
                cwd: scratch.path.clone(),
                stdin: Vec::new(),
                stdin_kind: StdinKind::DevNull,
                stdin_cuts: Vec::new(),
                shared_out_err: false,
                removed_cwd: false,
                stalled_stdout_reader_ms: 0,
            };
            let mut r = procworld::run(&spec, &scratch, &format!("c10-{}-{}", sub, i))?;
            r.stderr = procworld::neutralise_panic_thread_id(&procworld::strip_sgr(&r.stderr));
            r.stdout = procworld::strip_sgr(&r.stdout);
            stats.inc("fault.configured.process_spawn");
            stats.inc("fault.fired.process_spawn");
            stats.inc(&format!("count.process_arm.{}", sub));
            match &first {
                None => first = Some(r),
                Some(b) => {
                    if *b != r {
                        return Ok(Some((
                            "C10.D2-processes-differ",
                            format!("two processes running `rrss {} FILE` on the same file differ (stdout/stderr/exit status)", sub),
                            J::obj(vec![
                                ("program", J::s(source.to_string())),
                                ("subcommand", J::s(sub)),
                                ("result_a", b.to_json()),
                                ("result_b", r.to_json()),
                            ]),
                            hash_combine(hash_bytes(source.as_bytes()), hash_bytes(sub.as_bytes())),
                        )));
                    }
                }
            }
        }
    }
    let mut base: Option<(procworld::ProcResult, J)> = None;
    for i in 0..3 {
        let hs = if i == 0 { 0 } else { 1 + tape.draw(u32::MAX - 1) as u64 };
        let mut env = vec![("RRSS_VERIF_HASH_SEED".to_string(), hs.to_string())];
        if i == 1 {
            env.push(("HOME".into(), "/nonexistent".into()));
            env.push(("LANG".into(), "C".into()));
        }
        if i == 2 {
            env.push(("TERM".into(), "xterm".into()));
            let skew = procworld::clock_env_for(hash_bytes(source.as_bytes()) ^ 0x9e37);
            if !skew.is_empty() {
                stats.inc("fault.configured.clock_skew_and_fast_time");
                stats.inc("fault.fired.clock_skew_and_fast_time");
            }
            env.extend(skew);
        }
        let spec = ProcSpec {
            args: vec!["exec".into(), file.clone().into_os_string()],
            env,
            cwd: if i == 2 { "/".into() } else { scratch.path.clone() },
            stdin: input.to_vec(),
            stdin_kind: if i == 1 { StdinKind::Pipe } else { StdinKind::File },
            shared_out_err: false,
            removed_cwd: false,
            stdin_cuts: Vec::new(),
            stalled_stdout_reader_ms: 0,
        };
        let mut r = procworld::run(&spec, &scratch, &format!("c10-{}", i))?;
        r.stderr = procworld::neutralise_panic_thread_id(&procworld::strip_sgr(&r.stderr));
        stats.inc("fault.configured.process_spawn");
        stats.inc("fault.fired.process_spawn");
        let spec_json = J::obj(vec![
            ("args", J::s("exec prog.rock")),
            ("env", J::A(spec.env.iter().map(|(k, v)| J::s(format!("{}={}", k, v))).collect())),
            ("stdin_kind", J::s(format!("{:?}", spec.stdin_kind))),
        ]);
        if let (0, Some(obs)) = (i, in_process) {
            if let Some(detail) = fresh_process_disagrees(obs, &r) {
                return Ok(Some((
                    "C10.D4-fresh-process-differs-from-long-lived-process",
                    detail,
                    J::obj(vec![
                        ("program", J::s(source.to_string())),
                        ("input", J::S(render_bytes(input))),
                        ("in_process_observation", obs.to_json()),
                        ("process", spec_json),
                        ("process_result", r.to_json()),
                    ]),
                    hash_combine(hash_combine(hash_bytes(source.as_bytes()), hash_bytes(input)), 4),
                )));
            }
        }
        match &base {
            None => base = Some((r, spec_json)),
            Some((b, bj)) => {
                if *b != r {
                    return Ok(Some((
                        "C10.D2-processes-differ",
                        format!("process #{} differs from process #0 (stdout/stderr/exit status)", i),
                        J::obj(vec![
                            ("program", J::s(source.to_string())),
                            ("input", J::S(render_bytes(input))),
                            ("process_a", bj.clone()),
                            ("result_a", b.to_json()),
                            ("process_b", spec_json),
                            ("result_b", r.to_json()),
                        ]),
                        hash_combine(hash_bytes(source.as_bytes()), hash_bytes(input)),
                    )));
                }
            }
        }
    }
    Ok(None)
}
