//! rrss-sim: deterministic simulation harness for kepler-5/rrss.
//!
//!   rrss-sim <PROPERTY> <quick|thorough>
//!   rrss-sim <PROPERTY> --replay FILE [--machine]
//!   rrss-sim selftest-determinism <PROPERTY|all> <n> [--print]
//!
//! Exit codes: 0 property held, 1 violation, 2 harness error.

mod c08;
mod c08proc;
mod c10;
mod c16;
mod c20;
mod procworld;
mod driver;
mod gen;
mod json;
mod render;
mod rng;
mod script;
mod soup;
mod stream;
mod tape;

use driver::{Property, Tier};

fn property(id: &str) -> Option<Box<dyn Property>> {
    match id {
        "C08" => Some(Box::new(c08::C08)),
        "C10" => Some(Box::new(c10::C10)),
        "C16" => Some(Box::new(c16::C16)),
        "C20" => Some(Box::new(c20::C20)),
        _ => None,
    }
}

const ALL: &[&str] = &["C08", "C10", "C16", "C20"];

fn main() {
    c08::install_quiet_panic_hook();
    let args: Vec<String> = std::env::args().skip(1).collect();
    let code = run(&args);
    std::process::exit(code);
}

fn usage() -> i32 {
    eprintln!("usage: rrss-sim <PROPERTY> <quick|thorough> | <PROPERTY> --replay FILE | selftest-determinism <PROPERTY|all> <n>");
    2
}

fn run(args: &[String]) -> i32 {
    if args.is_empty() {
        return usage();
    }
    if args[0] == "selftest-determinism" {
        let which = args.get(1).map(|s| s.as_str()).unwrap_or("all");
        let n: u64 = args.get(2).and_then(|s| s.parse().ok()).unwrap_or(200);
        let print = args.iter().any(|a| a == "--print");
        let tier = if args.iter().any(|a| a == "--thorough") {
            Tier::Thorough
        } else {
            Tier::Quick
        };
        let ids: Vec<&str> = if which == "all" { ALL.to_vec() } else { vec![which] };
        let mut code = 0;
        for id in ids {
            match property(id) {
                Some(p) => {
                    p.process_warm_up();
                    code = code.max(driver::selftest_determinism(&*p, tier, n, print))
                }
                None => return usage(),
            }
        }
        return code;
    }
    let prop = match property(&args[0]) {
        Some(p) => p,
        None => {
            eprintln!("unknown property {}", args[0]);
            return 2;
        }
    };
    prop.process_warm_up();
    match args.get(1).map(|s| s.as_str()) {
        Some("--replay") => match args.get(2) {
            Some(path) => driver::replay(&*prop, path, args.iter().any(|a| a == "--machine")),
            None => usage(),
        },
        Some(t) => match Tier::parse(t) {
            Some(tier) => driver::check(&*prop, tier),
            None => usage(),
        },
        None => usage(),
    }
}
