//! C20 — the command-line tool behaves exactly like the library on the same
//! file. The real binary runs in a seeded, fully controlled process world;
//! the library in-process is the reference model.

use crate::c08::guarded;
use crate::driver::*;
use crate::json::{render_bytes, J};
use crate::procworld::{self, contains, strip_sgr, ProcResult, ProcSpec, Scratch, StdinKind};
use crate::rng::{hash_bytes, hash_combine};
use crate::script::Op;
use crate::tape::Tape;

pub struct C20;

const CORPUS: &[(&str, &str)] = &[
    (
        "fizzbuzz",
        "Modulus takes Number and Divisor\nWhile Number is as high as Divisor\nPut Number minus Divisor into Number\n    (blank line ending While block)\nGive back Number\n    (blank line ending function declaration)\nLimit is 20\nCounter is 0\nFizz is 3\nBuzz is 5\nUntil Counter is Limit\nBuild Counter up\nIf Modulus taking Counter, Fizz is 0 and Modulus taking Counter, Buzz is 0\nSay \"FizzBuzz!\"\nContinue\n    (blank line ending 'If' Block)\nIf Modulus taking Counter and Fizz is 0\nSay \"Fizz!\"\nContinue\n    (blank line ending 'If' Block)\nIf Modulus taking Counter and Buzz is 0\nSay \"Buzz!\"\nContinue\n    (blank line ending 'If' Block)\nSay Counter (Note that the EOF terminates the `Until` block.)",
    ),
    (
        "factorial",
        "Factorial takes X\nif X is nothing\nGive back 1\nelse\nput X minus 1 into NewX\nGive back X times Factorial taking NewX\n(end if)\n(end func)\nsay Factorial taking 4\nsay Factorial taking 10\n",
    ),
    (
        "echo until blank",
        "Listen to the line\nUntil the line is empty\nSay the line\nListen to the line\n\nSay \"done\"\n",
    ),
    (
        "counting",
        "Limit is 7\nCounter is nothing\nWhile Counter is less than Limit\nBuild Counter up\nSay Counter\n\nSay \"lift off\"\n",
    ),
    (
        "stack",
        "Rock the list with 1, 2, 3\nRock the list with \"four\"\nWhile the list ain't nothing\nRoll the list into the top\nSay the top\n\n",
    ),
    (
        "split and join",
        "Listen to the words\nCut the words into pieces with \" \"\nSay pieces\nJoin pieces into glue with \"-\"\nSay glue\nCast \"42\" into Answer\nSay Answer plus 1\nTurn up Answer\nSay Answer\n",
    ),
    ("crlf poetic string", "Tommy says hello there\r\nSay Tommy\r\nListen to Gina\r\nSay Gina\r\n"),
    ("byte order mark", "\u{feff}Say \"bom\"\n"),
    ("trailing whitespace and blank lines", "Say \"a\"   \n\t\nSay \"b\"\n\n\n   \n"),
    ("tabs and form feed", "\tSay \"indented\"\n\u{c}Say \"after form feed\"\n"),
    (
        "return at top level, more blocks after it",
        "Say \"a\"\nGive back 1\nSay \"not reached in this block\"\n\n\nSay \"first of block two\"\nSay \"second of block two\"\n\n\nIf true\nSay \"block three\"\n\n",
    ),
    (
        "list on the right of a plain assignment, after output",
        "Say \"before\"\nLet Total be 1, 2\nSay \"after\"\n",
    ),
    (
        "list on the right of a plain assignment, never reached",
        "Say \"start\"\nIf false\nLet Total be 1, 2, 3\n\nPut 4 into Total\nSay Total\n",
    ),
    (
        "push onto a variable that holds a number",
        "Put 5 into Solo\nRock Solo with 6\nSay Solo\nPut \"text\" into Duo\nRock Duo with 1, 2\nSay Duo\n",
    ),
    ("empty", ""),
    ("only blank lines", "\n\n\n"),
    ("hello", "Say \"Hello, World!\"\n"),
];

#[derive(Clone, Copy, Debug, PartialEq, Eq)]
enum Sub {
    Exec,
    Lint,
    Parse,
}

impl Sub {
    fn name(self) -> &'static str {
        match self {
            Sub::Exec => "exec",
            Sub::Lint => "lint",
            Sub::Parse => "parse",
        }
    }
}

#[derive(Clone, Debug, PartialEq, Eq)]
enum FileFault {
    None,
    Missing,
    IsDirectory,
    NotUtf8,
    Empty,
    TruncatedAt(usize),
}

#[derive(Clone, Debug, PartialEq, Eq)]
enum Usage {
    Normal,
    UnknownSubcommand,
    MissingFileArgument,
    /// FILE followed by a second operand that names no file
    SurplusArgument,
    /// an operand that names no file, followed by FILE
    SurplusArgumentFirst,
    UnknownFlag,
}

#[derive(Clone, Copy, Debug, PartialEq, Eq)]
enum FileVia {
    /// a regular file
    Plain,
    /// a symbolic link to the regular file
    Symlink,
    /// FILE is /dev/stdin and the program text arrives through a pipe
    /// (readable, but not a regular file; as with process substitution)
    DevStdinPipe,
}

struct WorldSpec {
    /// standard output is a pipe whose reader starts late (slow consumer)
    stalled_reader: bool,
    /// the working directory has been removed by the time the tool runs
    removed_cwd: bool,
    /// (standard input is a terminal, standard output is a terminal)
    tty: (bool, bool),
    /// standard error is a terminal
    stderr_tty: bool,
    file_via: FileVia,
    sub: Sub,
    usage: Usage,
    source_kind: &'static str,
    source: Vec<u8>,
    loop_free: bool,
    fault: FileFault,
    file_name: String,
    relative_path: bool,
    stdin: Vec<u8>,
    stdin_not_utf8: bool,
    missing_name_not_utf8: bool,
    stdin_kind: StdinKind,
    /// with StdinKind::Trickle: where the slow producer pauses
    stdin_cuts: Vec<usize>,
    /// the tool's clocks: (seconds away from the real time, milliseconds
    /// that pass with every reading of a clock)
    clock: Option<(i64, u64)>,
    env: Vec<(String, String)>,
    hash_seed: u64,
}

fn has_loops(ops: &[Op]) -> bool {
    ops.iter().any(|o| match o {
        Op::Repeat { .. } | Op::ListenLoop { .. } | Op::ListenLoopBreak { .. } => true,
        Op::If { then, els, .. } => has_loops(then) || els.as_ref().map_or(false, |e| has_loops(e)),
        _ => false,
    })
}

fn gen_world(t: &mut Tape) -> WorldSpec {
    let sub = [Sub::Exec, Sub::Lint, Sub::Parse][t.weighted(&[6, 2, 2])];
    let usage = match t.weighted(&[20, 1, 1, 1, 1, 1]) {
        0 => Usage::Normal,
        1 => Usage::UnknownSubcommand,
        2 => Usage::MissingFileArgument,
        3 => Usage::SurplusArgument,
        4 => Usage::UnknownFlag,
        _ => Usage::SurplusArgumentFirst,
    };
    let (mut source_kind, mut source, mut stdin, mut loop_free): (&'static str, Vec<u8>, Vec<u8>, bool) =
        match t.weighted(&[5, 3, 2, 2, 4]) {
            4 => {
                // any program is workload here: the library is the reference
                let s = crate::soup::gen_soup(t);
                ("soup program", s.source.into_bytes(), s.input, false)
            }
            0 => {
                let sc = crate::c08::gen_scenario(t);
                let lf = !has_loops(&sc.script.main)
                    && sc.script.funcs.iter().all(|f| !has_loops(&f.body));
                ("io script", sc.source.into_bytes(), sc.input, lf)
            }
            1 => {
                let p = crate::c10::gen_dict_program(t);
                // (a program with a loop is never torn: cut between the loop
                // head and the statement that moves the counter it would run
                // for ever)
                let lf = !p.source.contains("While ") && !p.source.contains("Until ");
                ("dictionary program", p.source.into_bytes(), p.input, lf)
            }
            2 => {
                let (_, text) = CORPUS[t.draw(CORPUS.len() as u32) as usize];
                let input = match t.draw(4) {
                    0 => b"5\n".to_vec(),
                    1 => b"one two  three\nsecond\n\nafter blank\n".to_vec(),
                    2 => Vec::new(),
                    _ => "ünï çödé\nlast without newline".as_bytes().to_vec(),
                };
                ("corpus", text.as_bytes().to_vec(), input, false)
            }
            _ => {
                // a parse error on a chosen line of an otherwise fine program
                let sc = crate::c08::gen_scenario(t);
                let mut lines: Vec<&str> = sc.source.split_inclusive('\n').collect();
                let at = t.draw(lines.len() as u32 + 1) as usize;
                let bad = *t.pick(&["Say say say\n", "Put into nothing\n", "Listen to 5\n", "Build up\n"]);
                lines.insert(at, bad);
                ("parse error on a chosen line", lines.concat().into_bytes(), sc.input, false)
            }
        };
    // occasionally a bulk world: a program that consumes all of a standard
    // input larger than any pipe or stdio buffer
    if t.chance(1, 20) {
        source_kind = "corpus";
        loop_free = false;
        source = (*t.pick(&[
            "Listen to the line\nUntil the line is empty\nSay the line\nListen to the line\n\nSay \"done\"\n",
            "Counter is 0\nListen to the line\nWhile the line ain't empty\nBuild Counter up\nListen to the line\n\nSay Counter\n",
        ]))
        .as_bytes()
        .to_vec();
        stdin.clear();
        let n = 2500 + t.draw(4000) as usize;
        for i in 0..n {
            stdin.extend_from_slice(format!("bulk line number {} of the large input\n", i).as_bytes());
        }
    }
    // a first line of the kind files get from tools: an interpreter line,
    // an editor mode line, a comment
    if t.chance(1, 20) && source_kind != "parse error on a chosen line" {
        let mut pre = (*t.pick(&[
            "#!/usr/bin/env rrss\n",
            "#!/usr/local/bin/rrss exec\n",
            "(-*- mode: rockstar -*-)\n",
            "# a song\n",
        ]))
        .as_bytes()
        .to_vec();
        pre.extend_from_slice(&source);
        source = pre;
    }
    // a separate first top-level block that says and listens (two blank
    // lines end it): whatever follows - also a syntax error - is another block
    if t.chance(1, 5) {
        let mut pre = (*t.pick(&[
            "Say \"prologue\"\n\n\n",
            "Say \"prologue\"\nListen\nSay \"heard\"\n\n\n",
            "Listen to Opening\nSay Opening\n\n\n",
        ]))
        .as_bytes()
        .to_vec();
        pre.extend_from_slice(&source);
        source = pre;
    }
    // control characters inside string literals (they reach say output, the
    // syntax tree, and the texts the lint quotes)
    if t.chance(1, 8) && source_kind != "parse error on a chosen line" {
        let lit = *t.pick(&[
            "bell\u{7}and\u{8}backspace",
            "carriage\rreturn inside",
            "esc\u{1b}alone and vt\u{b}ff\u{c}",
            "del\u{7f}and nul-free \u{1}\u{2}",
        ]);
        let mut pre = format!("Put \"{}\" into Gizmo\nSay Gizmo\n", lit).into_bytes();
        pre.extend_from_slice(&source);
        source = pre;
    }
    // the file ends in a word that cannot begin a statement, with or without
    // a line end after it (an error at the very end of the text: there is no
    // next token to point at)
    if t.chance(1, 25) && source_kind != "parse error on a chosen line" {
        if !source.is_empty() && *source.last().unwrap() != b'\n' {
            source.push(b'\n');
        }
        source.extend_from_slice(
            (*t.pick(&[
                "\"dangling\"", "42", "plus", ",", "with", "into", "\"dangling\"\n", "42\n", "is", "Put", "Say", "Say \"x\" plus",
            ]))
            .as_bytes(),
        );
    }
    // a said value with a line break in it and a long run of text after the
    // last break (how a line-buffered standard output treats it)
    if t.chance(1, 25) {
        source_kind = "corpus";
        loop_free = true;
        let base = [1024usize, 1024, 8192, 65536][t.draw(4) as usize];
        let tail: String = (0..(base - 1 + t.draw(3) as usize)).map(|k| (b'a' + (k % 23) as u8) as char).collect();
        source = if t.chance(1, 2) {
            format!("Say \"first\nsecond\n{}\"\nSay \"end\"\n", tail)
        } else {
            format!("Cast 10 into Newline\nPut \"{}\" into Tail\nSay \"head\" plus Newline plus Tail\nSay \"end\"\n", tail)
        }
        .into_bytes();
    }
    // long error messages full of multi-byte characters (whatever is done to
    // an error text - wrapping, shortening - meets a character boundary)
    if t.chance(1, 25) {
        source_kind = "corpus";
        loop_free = true;
        let n = 60 + t.draw(400) as usize;
        let lead = ["", "x", "xy", "\u{20ac}"][t.draw(4) as usize];
        let filler: String = std::iter::repeat(['\u{e9}', '\u{65e5}', '\u{1f3b8}'][t.draw(3) as usize]).take(n).collect();
        if t.chance(1, 2) {
            source = b"Listen to the line\nSay \"got it\"\nCast the line into the number\nSay the number\n".to_vec();
            stdin = format!("{}{}\n", lead, filler).into_bytes();
        } else {
            // a parse error whose text quotes a long non-ASCII token
            source = format!("Say \"ok\"\nPut {}{} {} into\n", lead, filler, filler).into_bytes();
        }
    }
    // occasionally a program file larger than any stdio or pipe buffer
    if t.chance(1, 40) {
        source_kind = "corpus";
        loop_free = true;
        let n = 3000 + t.draw(3000) as usize;
        let mut big = String::with_capacity(n * 24);
        for i in 0..n {
            big.push_str(&format!("Say \"line {} of a big file\"\n", i));
        }
        if t.chance(1, 2) {
            big.push_str("Build Missing Thing up\n"); // runtime error at the very end
        }
        source = big.into_bytes();
    }
    // occasionally a large stdin (exceeds the pipe buffer)
    if t.chance(1, 25) {
        let n = 3000 + t.draw(3000) as usize;
        let mut big = Vec::with_capacity(n * 40);
        for i in 0..n {
            big.extend_from_slice(format!("bulk line number {} of the large input\n", i).as_bytes());
        }
        stdin.extend_from_slice(&big);
    }
    // standard input that is not a text: a Latin-1 byte somewhere, or binary
    // data after the last line (the library sees the same bytes)
    let mut stdin_not_utf8 = false;
    if t.chance(1, 10) {
        stdin_not_utf8 = true;
        if t.chance(1, 2) {
            let at = t.draw(stdin.len() as u32 + 1) as usize;
            stdin.insert(at, 0xE9);
        } else {
            stdin.extend_from_slice(&[0x00, 0xFF, 0xFE, b'\n', 0xC3]);
        }
    }
    let fault = match t.weighted(&[24, 2, 1, 1, 1, 2]) {
        0 => FileFault::None,
        1 => FileFault::Missing,
        2 => FileFault::IsDirectory,
        3 => FileFault::NotUtf8,
        4 => FileFault::Empty,
        _ => {
            if loop_free && !source.is_empty() {
                FileFault::TruncatedAt(t.draw(source.len() as u32) as usize)
            } else {
                FileFault::None
            }
        }
    };
    match &fault {
        FileFault::Empty => source.clear(),
        FileFault::TruncatedAt(n) => source.truncate(*n),
        FileFault::NotUtf8 => {
            let at = t.draw(source.len() as u32 + 1) as usize;
            source.insert(at, 0xFF);
        }
        _ => {}
    }
    let file_name = (*t.pick(&["prog.rock", "my song.rock", "sång-ü.rock", "deep/dir/prog.rock", "-dash.rock"]))
        .to_string();
    let stdin_kind = if stdin.is_empty() && t.chance(1, 3) {
        StdinKind::DevNull
    } else if t.chance(1, 2) {
        StdinKind::Pipe
    } else {
        StdinKind::File
    };
    let mut env: Vec<(String, String)> = Vec::new();
    match t.weighted(&[4, 2, 2, 1, 1]) {
        0 => {}
        1 => env.push(("NO_COLOR".into(), "1".into())),
        2 => env.push(("CLICOLOR_FORCE".into(), "1".into())),
        3 => env.push(("CLICOLOR".into(), "0".into())),
        _ => {
            env.push(("TERM".into(), "xterm-256color".into()));
            env.push(("LANG".into(), "sv_SE.UTF-8".into()));
        }
    }
    let hash_seed = t.draw(1 << 20) as u64;
    let mut file_via = FileVia::Plain;
    if usage == Usage::Normal && matches!(fault, FileFault::None | FileFault::Empty | FileFault::TruncatedAt(_)) {
        match t.weighted(&[12, 1, 1]) {
            0 => {}
            1 => file_via = FileVia::Symlink,
            _ => {
                file_via = FileVia::DevStdinPipe;
                // the program text uses up standard input
                stdin.clear();
                stdin_not_utf8 = false;
            }
        }
    }
    let stdin_kind = if file_via == FileVia::DevStdinPipe { StdinKind::Pipe } else { stdin_kind };
    // terminal worlds: standard input and/or standard output is a
    // pseudo-terminal (interactive use); input is kept to short plain lines
    let mut tty = (false, false);
    let mut stderr_tty = false;
    if usage == Usage::Normal
        && matches!(fault, FileFault::None | FileFault::Empty)
        && file_via != FileVia::DevStdinPipe
        && t.chance(1, 9)
    {
        // (with the third kind standard error is the only terminal)
        tty = [(true, false), (false, true), (true, true), (false, false)][t.draw(4) as usize];
        stderr_tty = tty == (false, false) || t.chance(1, 3);
        if tty.0 {
            stdin = (*t.pick(&[
                "alpha\nbeta gamma\n\nd\u{e9}j\u{e0} vu\nlast\n",
                "one\n",
                "",
                "5\n7\n\n",
                "tabs\tinside\nand more\nlines\nto\nread\n",
            ]))
            .as_bytes()
            .to_vec();
            stdin_not_utf8 = false;
        }
    }
    let relative_path = t.chance(1, 2);
    let removed_cwd = tty == (false, false)
        && !stderr_tty
        && !relative_path
        && file_via != FileVia::DevStdinPipe
        && std::path::Path::new("/bin/sh").exists()
        && t.chance(1, 20);
    // a slow consumer of a large output: the program fills the pipe and has
    // to wait; nothing may be lost, whether it ends well or in an error
    let mut stalled_reader = false;
    if usage == Usage::Normal
        && fault == FileFault::None
        && tty == (false, false)
        && !stderr_tty
        && !removed_cwd
        && file_via != FileVia::DevStdinPipe
        && sub == Sub::Exec
        && t.chance(1, 35)
    {
        stalled_reader = true;
        let n = 4000 + t.draw(3000) as usize;
        let mut big = String::with_capacity(n * 28);
        for i in 0..n {
            big.push_str(&format!("Say \"line {} for a slow reader\"\n", i));
        }
        if t.chance(1, 2) {
            big.push_str("Build Missing Thing up\n");
        }
        source = big.into_bytes();
        source_kind = "corpus";
    }
    // a slow producer: what standard input holds arrives in several pieces,
    // cut anywhere (mostly inside a line); the contents are the same, so the
    // tool has to print what the library prints
    let mut stdin_kind = stdin_kind;
    let mut stdin_cuts = Vec::new();
    let piped_bytes = if file_via == FileVia::DevStdinPipe { source.len() } else { stdin.len() };
    if stdin_kind == StdinKind::Pipe && piped_bytes >= 2 && tty == (false, false) && !stderr_tty && t.chance(1, 2) {
        stdin_kind = StdinKind::Trickle;
        if t.chance(1, 2) {
            // every one of the first few lines arrives in two pieces
            let bytes: &[u8] = if file_via == FileVia::DevStdinPipe { &source } else { &stdin };
            let lines = 1 + t.draw(6) as usize;
            let mut start = 0usize;
            for _ in 0..lines {
                if start >= bytes.len() {
                    break;
                }
                let len = bytes[start..].iter().position(|&b| b == b'\n').unwrap_or(bytes.len() - start);
                if len >= 2 {
                    stdin_cuts.push(start + 1 + t.draw(len as u32 - 1) as usize);
                }
                start += len + 1;
            }
        }
        if stdin_cuts.is_empty() {
            let n = 1 + t.draw(5) as usize;
            for _ in 0..n {
                // (programs mostly read the first few lines: half of the
                // pauses fall into the first 120 bytes)
                let within = if t.chance(1, 2) { piped_bytes.min(120) } else { piped_bytes };
                stdin_cuts.push(1 + t.draw(within as u32 - 1) as usize);
            }
        }
        stdin_cuts.sort();
        stdin_cuts.dedup();
    }
    // the tool lives at another time, and time passes quickly there (clock
    // seam): what it prints does not depend on any clock
    let clock = if tty == (false, false) && !stderr_tty && !removed_cwd && t.chance(1, 3) {
        Some((
            t.draw(2_000_000_000) as i64 - 1_000_000_000,
            *t.pick(&[700u64, 1500, 2500, 61_000, 90_000]),
        ))
    } else {
        None
    };
    WorldSpec {
        clock,
        stdin_cuts,
        stalled_reader,
        removed_cwd,
        tty,
        stderr_tty,
        file_via,
        sub,
        usage,
        source_kind,
        source,
        loop_free,
        fault,
        file_name,
        relative_path,
        stdin,
        stdin_not_utf8,
        missing_name_not_utf8: t.chance(1, 3),
        stdin_kind,
        env,
        hash_seed,
    }
}

/// What the library does with the same file contents and standard input.
/// Stands for the text of a runtime error that the library returned in the
/// ordinary way but cannot turn into text (rendering it panics).
const NO_TEXT: &str = "\u{0}<the library cannot render this error>";

enum LibRef {
    ParseError(String),
    /// the parser returned an error in the ordinary way, but turning that
    /// error into text panics: there is a parse error to report, with no
    /// reference text for it
    ParseErrorWithoutText,
    Exec { out: Vec<u8>, error: Option<String> },
    Tree(String),
    Lint(Vec<(u32, String, Vec<String>)>),
}

fn library(w: &WorldSpec) -> Result<LibRef, String> {
    crate::driver::heartbeat();
    let source = match std::str::from_utf8(&w.source) {
        Ok(s) => s,
        Err(_) => return Err("not utf8".into()),
    };
    let stdin = w.stdin.clone();
    let sub = w.sub;
    let seed = w.hash_seed;
    guarded(move || {
        rrss::verif_seams::set_hash_seed(seed);
        match rrss::frontend::parser::parse(source) {
            Err(e) => match std::panic::catch_unwind(std::panic::AssertUnwindSafe(|| e.to_string())) {
                Ok(text) => LibRef::ParseError(text),
                Err(_) => LibRef::ParseErrorWithoutText,
            },
            Ok(program) => match sub {
                Sub::Exec => {
                    let mut out = Vec::new();
                    let r = rrss::exec::exec_using(&stdin[..], &mut out, &program);
                    // (an error whose text cannot be rendered - Display
                    // panics - is still an error to be reported: marked)
                    let error = r.err().map(|e| {
                        std::panic::catch_unwind(std::panic::AssertUnwindSafe(|| e.to_string()))
                            .unwrap_or_else(|_| NO_TEXT.to_string())
                    });
                    LibRef::Exec { out, error }
                }
                Sub::Parse => LibRef::Tree(format!("{:#?}\n", program)),
                Sub::Lint => LibRef::Lint(
                    rrss::linter::standard_linter()
                        .run(&program)
                        .diags
                        .into_iter()
                        .map(|d| (d.line, d.issue, d.suggestions))
                        .collect(),
                ),
            },
        }
    })
}

/// `{:#?}` and `{:?}` renderings of one tree become equal under this.
fn normalise_debug(b: &[u8]) -> Vec<u8> {
    let mut out: Vec<u8> = Vec::with_capacity(b.len());
    let mut in_string = false;
    let mut i = 0;
    while i < b.len() {
        let c = b[i];
        if in_string {
            out.push(c);
            if c == b'\\' && i + 1 < b.len() {
                out.push(b[i + 1]);
                i += 1;
            } else if c == b'"' {
                in_string = false;
            }
        } else if c == b'"' {
            in_string = true;
            out.push(c);
        } else if c.is_ascii_whitespace() {
            // dropped
        } else if matches!(c, b')' | b'}' | b']') && out.last() == Some(&b',') {
            out.pop();
            out.push(c);
        } else {
            out.push(c);
        }
        i += 1;
    }
    out
}

/// The decimal number appears as a token of its own (not inside a longer
/// number): how the line is labelled is not constrained.
fn contains_number(hay: &[u8], n: u32) -> bool {
    let needle = n.to_string().into_bytes();
    let mut from = 0;
    while let Some(p) = find_from(hay, &needle, from) {
        let before_ok = p == 0 || !hay[p - 1].is_ascii_digit();
        let after = p + needle.len();
        let after_ok = after >= hay.len() || !hay[after].is_ascii_digit();
        if before_ok && after_ok {
            return true;
        }
        from = p + 1;
    }
    false
}

fn find_from(hay: &[u8], needle: &[u8], from: usize) -> Option<usize> {
    if needle.is_empty() {
        return Some(from);
    }
    if from > hay.len() {
        return None;
    }
    hay[from..]
        .windows(needle.len())
        .position(|w| w == needle)
        .map(|p| p + from)
}

fn judge(w: &WorldSpec, lib: &Result<LibRef, String>, sep: &ProcResult, shared: &ProcResult) -> Option<(&'static str, String)> {
    // R6 missing file or bad usage => non-zero exit status
    if w.usage != Usage::Normal || w.fault == FileFault::Missing {
        if sep.code == Some(0) || shared.code == Some(0) {
            return Some((
                "C20.R6-nonzero-exit-on-bad-usage",
                format!("usage={:?} file={:?} but the exit status is 0", w.usage, w.fault),
            ));
        }
        return None;
    }
    if matches!(w.fault, FileFault::IsDirectory | FileFault::NotUtf8) {
        return None; // load failures other than a missing file: not constrained
    }
    let lib = match lib {
        Ok(l) => l,
        Err(_) => return None, // library panicked on this program: C01/C09/C19 territory
    };
    // R7 the tool never dies by signal / panic / hang
    for (name, r) in [("separate", sep), ("shared", shared)] {
        if r.timed_out {
            return Some(("C20.R7-abnormal-termination", format!("the binary did not finish within {} s ({} streams)", procworld::CHILD_TIMEOUT_S, name)));
        }
        if let Some(sig) = r.signal {
            return Some(("C20.R7-abnormal-termination", format!("the binary was killed by signal {} ({} streams)", sig, name)));
        }
        if r.code == Some(101) {
            return Some(("C20.R7-abnormal-termination", format!("the binary panicked (exit status 101) where the library returned normally ({} streams)", name)));
        }
    }
    let stderr = strip_sgr(&sep.stderr);
    let stdout_plain = strip_sgr(&sep.stdout);
    match lib {
        LibRef::ParseErrorWithoutText => {
            // (R7 above: the tool has not died of it) R2 a parse error is
            // reported as such, and nothing was run
            if !contains(&stderr.to_ascii_lowercase(), b"parse error") {
                return Some(("C20.R2-error-on-stderr", "the program does not parse, but nothing prefixed as a parse error is on standard error".into()));
            }
            if w.sub == Sub::Exec && !sep.stdout.is_empty() {
                return Some(("C20.R1-exec-stdout", format!("the program does not parse but {} bytes were written to standard output", sep.stdout.len())));
            }
        }
        LibRef::ParseError(msg) => {
            // R2 reported on stderr, prefixed as a parse error, nothing on stdout
            match find_from(&stderr, msg.as_bytes(), 0) {
                None => {
                    return Some(("C20.R2-error-on-stderr", format!("standard error does not contain the library's parse error text {:?}", msg)))
                }
                Some(p) => {
                    if !contains(&stderr[..p].to_ascii_lowercase(), b"parse error") {
                        return Some(("C20.R2-error-on-stderr", "the parse error on standard error is not prefixed as a parse error".into()));
                    }
                }
            }
            if !w.stderr_tty && !contains(&sep.stderr, msg.as_bytes()) {
                return Some((
                    "C20.R2-error-on-stderr",
                    format!("the parse error text on standard error is the library's text {:?} only after terminal escape sequences have been removed from inside it", msg),
                ));
            }
            if contains(&stdout_plain, msg.as_bytes()) {
                return Some(("C20.R2-error-on-stderr", "the parse error text appears on standard output".into()));
            }
            if w.sub == Sub::Exec && !sep.stdout.is_empty() {
                return Some(("C20.R1-exec-stdout", format!("the program does not parse but {} bytes were written to standard output", sep.stdout.len())));
            }
        }
        LibRef::Exec { out, error } => {
            // R1 stdout is exactly what the library wrote
            if sep.stdout != *out {
                let d = out.iter().zip(sep.stdout.iter()).position(|(a, b)| a != b).unwrap_or(out.len().min(sep.stdout.len()));
                return Some((
                    "C20.R1-exec-stdout",
                    format!("standard output differs from the library's output at byte {} (binary {} bytes, library {} bytes)", d, sep.stdout.len(), out.len()),
                ));
            }
            if error.as_deref() == Some(NO_TEXT) {
                // (R7 above: the tool has not died of it) a runtime error is
                // reported as such
                if !contains(&stderr.to_ascii_lowercase(), b"runtime error") {
                    return Some(("C20.R2-error-on-stderr", "the run ends in a runtime error, but nothing prefixed as a runtime error is on standard error".into()));
                }
            } else if let Some(msg) = error {
                match find_from(&stderr, msg.as_bytes(), 0) {
                    None => {
                        return Some(("C20.R2-error-on-stderr", format!("standard error does not contain the library's runtime error text {:?}", msg)))
                    }
                    Some(p) => {
                        if !contains(&stderr[..p].to_ascii_lowercase(), b"runtime error") {
                            return Some(("C20.R2-error-on-stderr", "the runtime error on standard error is not prefixed as a runtime error".into()));
                        }
                    }
                }
                // the message is the library's text as it stands: whatever
                // decoration the tool adds goes around it, not into it (on a
                // terminal line ends are translated, so only elsewhere)
                if !w.stderr_tty && !contains(&sep.stderr, msg.as_bytes()) {
                    return Some((
                        "C20.R2-error-on-stderr",
                        format!("the runtime error text on standard error is the library's text {:?} only after terminal escape sequences have been removed from inside it", msg),
                    ));
                }
            } else if contains(&stderr.to_ascii_lowercase(), b"runtime error") || contains(&stderr.to_ascii_lowercase(), b"parse error") {
                return Some(("C20.R2-error-on-stderr", "the library succeeded but the binary reports an error on standard error".into()));
            }
        }
        LibRef::Tree(tree) => {
            // R4 the library's syntax tree
            if normalise_debug(&stdout_plain) != normalise_debug(tree.as_bytes()) {
                return Some(("C20.R4-parse-prints-tree", "standard output is not the library's syntax tree (compared modulo whitespace and trailing commas)".into()));
            }
        }
        LibRef::Lint(diags) => {
            // R5 every diagnostic, in the library's order: issue, its line, its suggestions
            let mut pos = 0usize;
            for (n, (line, issue, suggestions)) in diags.iter().enumerate() {
                let start = pos;
                match find_from(&stdout_plain, issue.as_bytes(), pos) {
                    Some(p) => pos = p + issue.len(),
                    None => {
                        return Some(("C20.R5-lint-prints-diagnostics", format!("diagnostic #{} ({:?}) is missing from standard output or out of order", n, issue)))
                    }
                }
                // the line number is printed with the diagnostic (before or after the issue text, before the next diagnostic)
                let next_issue_at = diags
                    .get(n + 1)
                    .and_then(|d| find_from(&stdout_plain, d.1.as_bytes(), pos))
                    .unwrap_or(stdout_plain.len());
                // the window of this diagnostic, with its own issue and
                // suggestion texts blanked out (they may contain digits)
                let mut window = stdout_plain[start..next_issue_at].to_vec();
                for text in std::iter::once(issue).chain(suggestions.iter()) {
                    if let Some(p) = find_from(&window, text.as_bytes(), 0) {
                        for b in &mut window[p..p + text.len()] {
                            *b = b' ';
                        }
                    }
                }
                if !contains_number(&window, *line) {
                    return Some(("C20.R5-lint-prints-diagnostics", format!("diagnostic #{} is not reported with its line {}", n, line)));
                }
                for s in suggestions {
                    match find_from(&stdout_plain, s.as_bytes(), pos) {
                        Some(p) if p < next_issue_at || next_issue_at == stdout_plain.len() => pos = p + s.len(),
                        _ => {
                            return Some(("C20.R5-lint-prints-diagnostics", format!("suggestion {:?} of diagnostic #{} is missing", s, n)))
                        }
                    }
                }
            }
            // each issue text occurs as often as in the library's list
            let mut seen: Vec<&String> = Vec::new();
            for (_, issue, _) in diags {
                if seen.contains(&issue) {
                    continue;
                }
                seen.push(issue);
                let want = diags.iter().filter(|d| d.1 == *issue).count();
                let mut got = 0;
                let mut p = 0;
                while let Some(q) = find_from(&stdout_plain, issue.as_bytes(), p) {
                    got += 1;
                    p = q + issue.len();
                }
                if got != want {
                    return Some(("C20.R5-lint-prints-diagnostics", format!("issue {:?} is printed {} times, the library reports it {} times", issue, got, want)));
                }
            }
        }
    }
    // R8 what lint and parse print into a standard output that is not a
    // terminal is text: no terminal escape sequences (unless forced)
    if w.sub != Sub::Exec
        && !w.tty.1
        && !w.env.iter().any(|(k, _)| k == "CLICOLOR_FORCE")
        && strip_sgr(&sep.stdout) != sep.stdout
    {
        return Some((
            "C20.R8-no-escape-sequences-in-redirected-output",
            "standard output is not a terminal and colour is not forced, but what the tool printed there contains terminal escape sequences".into(),
        ));
    }
    // R3 errors come after all output produced before them (shared file
    // description: the file's byte order is the order of the writes)
    if let Some(c) = &shared.combined {
        let mut want = sep.stdout.clone();
        want.extend_from_slice(&sep.stderr);
        // the error report - from the library's error text on - comes after
        // all of standard output; what else the tool writes to standard error
        // (warnings before the program starts, say) may come earlier
        let error_text: Option<&[u8]> = match lib {
            LibRef::ParseError(m) => Some(m.as_bytes()),
            LibRef::Exec { error: Some(m), .. } if m != NO_TEXT => Some(m.as_bytes()),
            _ => None,
        };
        let in_order = |part: &[u8], whole: &[u8]| -> bool {
            let mut it = whole.iter();
            part.iter().all(|b| it.any(|w| w == b))
        };
        let acceptable = *c == want
            || match error_text {
                Some(m) => match (find_from(c, m, 0), find_from(&sep.stderr, m, 0)) {
                    (Some(p), Some(q)) => {
                        c[p..] == sep.stderr[q..]
                            && p == sep.stdout.len() + q
                            && in_order(&sep.stdout, &c[..p])
                            && in_order(&sep.stderr[..q], &c[..p])
                    }
                    _ => false,
                },
                // no error report: nothing to be after
                None => {
                    c.len() == sep.stdout.len() + sep.stderr.len()
                        && in_order(&sep.stdout, c)
                        && in_order(&sep.stderr, c)
                }
            };
        if !acceptable {
            return Some((
                "C20.R3-error-after-output",
                format!(
                    "with stdout and stderr on one file description the error report does not come after all of standard output ({} bytes in all, {} of standard output, {} of standard error)",
                    c.len(),
                    sep.stdout.len(),
                    sep.stderr.len()
                ),
            ));
        }
    }
    None
}

impl Property for C20 {
    fn id(&self) -> &'static str {
        "C20"
    }

    fn plan(&self, tier: Tier) -> Plan {
        match tier {
            Tier::Quick => Plan {
                scenarios: 2400,
                time_cap_s: 90,
                shrink_budget: 300,
            },
            Tier::Thorough => Plan {
                scenarios: 400_000,
                time_cap_s: 600,
                shrink_budget: 600,
            },
        }
    }

    fn evidence_info(&self) -> EvidenceInfo {
        EvidenceInfo {
            level: "exploration",
            rule: "A scenario is a process world drawn from the tape: subcommand (exec/lint/parse) or a usage fault (unknown subcommand, missing/surplus argument, unknown flag); program source (generated say/listen script, dictionary program, classic corpus program, program with a parse error on a chosen line); file fault (missing, directory, not UTF-8, empty, torn at a byte offset for loop-free programs); file name (spaces, non-ASCII, sub-directory, leading dash), relative or absolute path; stdin contents (0-8 generated lines, sometimes >100 KiB) as file / pipe / /dev/null; environment (empty, NO_COLOR, CLICOLOR_FORCE, CLICOLOR=0, locale); hasher seed. The real binary is spawned twice per world (stdout/stderr to separate files, and to one shared file description) and compared with the library run in-process on the same bytes. evaluations = process spawns. Non-trivial = the binary produced at least one byte on stdout or stderr; distinct = distinct (argv shape, file bytes, stdin bytes, environment).".into(),
            assumptions: vec![
                "The child is single-threaded, clock-free and (with the hook) entropy-free, so a world is a repeatable execution; both spawns of a world must agree (checked through rule R3).".into(),
                "Not judged because the property is silent: exit status after parse/runtime errors, stderr content on success, `rrss` without arguments, what lint prints when there is nothing to report, exact lint layout, load failures other than a missing file, failing stdout.".into(),
                "parse output is compared with the library's {:#?} modulo whitespace and trailing commas.".into(),
                "Worlds on which the library itself panics are skipped and counted.".into(),
            ],
            components_real: vec![
                "the rrss binary built from the working tree (src/main.rs, rrss::run, cli::*, clap, colored, std stdin/stdout), hook on only for the hasher seed".into(),
                "kernel files and pipes".into(),
                "reference: rrss library in-process (parse, exec_using, standard_linter, Debug)".into(),
            ],
            components_stub: vec![
                "none inside the child; its world (argv, env, cwd, files, fds) is constructed by the simulator".into(),
                "the child's clocks in a third of the worlds: clock_gettime/gettimeofday/time go through a preloaded shim (sim/clockshim) that skews the wall clock and lets 0.7-90 s pass per reading".into(),
                "the writer of standard input in slow-producer worlds: delivers the bytes in pieces, the next piece once the pipe has been emptied".into(),
            ],
            step_unit: "process spawns",
            history_measure: "distinct (subcommand, usage fault, file fault, exit status, stdout empty?, stderr empty?) classes",
        }
    }

    fn run(&self, tape: &mut Tape, ctx: &Ctx, stats: &mut Stats) -> ScenarioResult {
        let w = gen_world(tape);
        if std::env::var("VERIF_DUMP").is_ok() {
            eprintln!(
                "--- world: {:?} {:?} {} stdin {:?} ---\n{}\n--- stdin ---\n{}\n---",
                w.sub,
                w.usage,
                w.source_kind,
                w.stdin_kind,
                String::from_utf8_lossy(&w.source[..w.source.len().min(4000)]),
                String::from_utf8_lossy(&w.stdin[..w.stdin.len().min(600)])
            );
        }
        let mut key = hash_bytes(&w.source);
        key = hash_combine(key, hash_bytes(&w.stdin));
        key = hash_combine(key, hash_bytes(format!("{:?}{:?}{:?}{:?}", w.sub, w.usage, w.fault, w.env).as_bytes()));
        let mut res = ScenarioResult {
            violation: None,
            executions: 0,
            steps: 0,
            key,
            nontrivial: false,
            histories: Vec::new(),
            sample: None,
            digest: key,
        };
        let scratch = match Scratch::new() {
            Ok(s) => s,
            Err(e) => {
                eprintln!("HARNESS ERROR: scratch dir: {}", e);
                std::process::exit(2);
            }
        };
        // file system view
        let path = scratch.path.join(&w.file_name);
        let setup = (|| -> std::io::Result<()> {
            if let Some(parent) = path.parent() {
                std::fs::create_dir_all(parent)?;
            }
            match w.fault {
                FileFault::Missing => {}
                FileFault::IsDirectory => std::fs::create_dir_all(&path)?,
                _ => {
                    if w.file_via == FileVia::Symlink {
                        let real = scratch.path.join("the-real-file.rock");
                        std::fs::write(&real, &w.source)?;
                        std::os::unix::fs::symlink(&real, &path)?;
                    } else {
                        std::fs::write(&path, &w.source)?
                    }
                }
            }
            Ok(())
        })();
        if let Err(e) = setup {
            eprintln!("HARNESS ERROR: cannot set up world: {}", e);
            std::process::exit(2);
        }
        let file_arg = if w.file_via == FileVia::DevStdinPipe {
            "/dev/stdin".to_string()
        } else if w.relative_path {
            // a leading dash would be taken for a flag: use ./ as a user would
            if w.file_name.starts_with('-') {
                format!("./{}", w.file_name)
            } else {
                w.file_name.clone()
            }
        } else {
            path.to_string_lossy().to_string()
        };
        use std::ffi::OsString;
        use std::os::unix::ffi::OsStringExt;
        let file_os: OsString = if w.fault == FileFault::Missing && w.missing_name_not_utf8 {
            // a missing file whose name is not valid UTF-8
            OsString::from_vec(b"no-such-caf\xe9.rock".to_vec())
        } else {
            OsString::from(file_arg.clone())
        };
        let args: Vec<OsString> = match w.usage {
            Usage::Normal => vec![w.sub.name().into(), file_os.clone()],
            Usage::UnknownSubcommand => vec!["perform".into(), file_os.clone()],
            Usage::MissingFileArgument => vec![w.sub.name().into()],
            Usage::SurplusArgument => vec![w.sub.name().into(), file_os.clone(), "no-such-extra.rock".into()],
            Usage::SurplusArgumentFirst => vec![w.sub.name().into(), "no-such-extra.rock".into(), file_os.clone()],
            Usage::UnknownFlag => vec![w.sub.name().into(), "--frobnicate".into(), file_os.clone()],
        };
        let mut env = w.env.clone();
        env.push(("RRSS_VERIF_HASH_SEED".into(), w.hash_seed.to_string()));
        if let Some((offset_s, step_ms)) = w.clock {
            let skew = procworld::clock_env(offset_s, step_ms);
            if !skew.is_empty() {
                stats.inc("fault.configured.clock_skew_and_fast_time");
                stats.inc("fault.fired.clock_skew_and_fast_time");
            }
            env.extend(skew);
        }
        let mut spec = ProcSpec {
            args: args.clone(),
            env,
            cwd: scratch.path.clone(),
            stdin: if w.file_via == FileVia::DevStdinPipe {
                w.source.clone()
            } else {
                w.stdin.clone()
            },
            stdin_kind: w.stdin_kind,
            stdin_cuts: w.stdin_cuts.clone(),
            shared_out_err: false,
            removed_cwd: w.removed_cwd,
            stalled_stdout_reader_ms: if w.stalled_reader { 800 } else { 0 },
        };
        let (sep, shared) = if w.stalled_reader {
            stats.inc("fault.configured.stdout_reader_stalled");
            stats.inc("fault.fired.stdout_reader_stalled");
            let a = procworld::run(&spec, &scratch, "stalled");
            (a.clone(), a)
        } else if w.tty != (false, false) || w.stderr_tty {
            match procworld::run_pty(&spec, &scratch, "pty", w.tty.0, w.tty.1, w.stderr_tty) {
                Ok(Some(r)) => {
                    stats.inc(&format!(
                        "count.terminal_world.stdin_tty={}.stdout_tty={}.stderr_tty={}",
                        w.tty.0, w.tty.1, w.stderr_tty
                    ));
                    (Ok(r.clone()), Ok(r))
                }
                Ok(None) => {
                    // no python3 to make a pseudo-terminal with: plain world
                    stats.inc("count.terminal_world_skipped_no_python3");
                    let a = procworld::run(&spec, &scratch, "sep");
                    spec.shared_out_err = true;
                    (a, procworld::run(&spec, &scratch, "shared"))
                }
                Err(e) => (Err(e.clone()), Err(e)),
            }
        } else {
            let a = procworld::run(&spec, &scratch, "sep");
            spec.shared_out_err = true;
            (a, procworld::run(&spec, &scratch, "shared"))
        };
        let (sep, shared) = match (sep, shared) {
            (Ok(a), Ok(b)) => (a, b),
            (Err(e), _) | (_, Err(e)) => {
                eprintln!("HARNESS ERROR: {}", e);
                std::process::exit(2);
            }
        };
        res.executions = 2;
        res.steps = 2;
        let lib = library(&w);
        // bookkeeping
        stats.inc(&format!("count.subcommand.{}", w.sub.name()));
        stats.inc(&format!("count.source.{}", w.source_kind.replace(' ', "_")));
        if w.usage != Usage::Normal {
            stats.inc(&format!("fault.configured.usage.{:?}", w.usage));
            stats.inc(&format!("fault.fired.usage.{:?}", w.usage));
        }
        let fault_name = match &w.fault {
            FileFault::None => None,
            FileFault::Missing => Some("file.missing"),
            FileFault::IsDirectory => Some("file.is_directory"),
            FileFault::NotUtf8 => Some("file.not_utf8"),
            FileFault::Empty => Some("file.empty"),
            FileFault::TruncatedAt(_) => Some("file.torn_at_byte_offset"),
        };
        if let Some(f) = fault_name {
            stats.inc(&format!("fault.configured.{}", f));
            if w.usage == Usage::Normal {
                stats.inc(&format!("fault.fired.{}", f));
            }
        }
        match &lib {
            Err(_) => stats.inc("count.skipped_library_panics_or_not_utf8"),
            Ok(LibRef::ParseError(_)) => stats.inc("probe.parse_error"),
            Ok(LibRef::ParseErrorWithoutText) => stats.inc("probe.parse_error_whose_text_cannot_be_rendered"),
            Ok(LibRef::Exec { out, error }) => {
                if error.is_some() && !out.is_empty() {
                    stats.inc("probe.runtime_error_after_output");
                } else if error.is_some() {
                    stats.inc("probe.runtime_error_without_output");
                }
            }
            Ok(LibRef::Lint(d)) => {
                if !d.is_empty() {
                    stats.inc("probe.lint_with_findings");
                } else {
                    stats.inc("probe.lint_without_findings");
                }
            }
            Ok(LibRef::Tree(_)) => stats.inc("probe.tree_printed"),
        }
        if let Ok(LibRef::Exec { out, .. }) = &lib {
            if out.len() > 65536 || (w.stdin.len() > 65536 && out.len() > 1000) {
                stats.inc("probe.program_consumed_more_than_64KiB_of_stdin_or_wrote_more_than_64KiB");
            }
        }
        if w.stdin_kind == StdinKind::Trickle {
            stats.inc("fault.configured.stdin.slow_producer");
            stats.inc("fault.fired.stdin.slow_producer");
            stats.add("count.stdin.slow_producer_pauses", w.stdin_cuts.len() as u64);
        }
        if w.stdin.len() > 65536 && w.stdin_kind == StdinKind::Pipe {
            stats.inc("probe.stdin_larger_than_pipe_buffer_through_pipe");
        }
        if !w.stdin.is_empty() && *w.stdin.last().unwrap() != b'\n' {
            stats.inc("probe.stdin_without_final_newline");
        }
        if w.stdin_not_utf8 {
            stats.inc("fault.configured.stdin.not_utf8");
            stats.inc("fault.fired.stdin.not_utf8");
        }
        if w.env.iter().any(|(k, _)| k == "CLICOLOR_FORCE") {
            stats.inc("probe.colour_forced");
        }
        if !w.file_name.is_ascii() {
            stats.inc("probe.non_ascii_path");
        }
        stats.inc(&format!("count.stdin_kind.{:?}", w.stdin_kind));
        stats.inc(&format!("count.file_via.{:?}", w.file_via));
        if w.removed_cwd {
            stats.inc("fault.configured.working_directory_removed");
            stats.inc("fault.fired.working_directory_removed");
        }
        let _ = w.loop_free;

        let obs_hash = {
            // messages may quote the operand: the private scratch directory's
            // name (process id, counter) is not part of the observation
            let scratch_name = scratch.path.to_string_lossy().to_string();
            let neutral = |b: &[u8]| -> Vec<u8> {
                String::from_utf8_lossy(b)
                    .replace(&scratch_name, "<scratch>")
                    .into_bytes()
            };
            let mut h = hash_bytes(&neutral(&sep.stdout));
            h = hash_combine(h, hash_bytes(&neutral(&strip_sgr(&sep.stderr))));
            h = hash_combine(h, sep.code.unwrap_or(-1) as u64);
            h
        };
        // a crashing child's stderr can contain thread ids: keep it out of the
        // determinism digest when the library itself panics on this world
        res.digest = hash_combine(
            res.digest,
            // (the same goes for any panic report: exit status 101)
            if lib.is_ok() && sep.code != Some(101) { obs_hash } else { hash_bytes(&sep.stdout) },
        );
        res.histories.push(hash_combine(
            hash_bytes(format!("{:?}{:?}{:?}", w.sub, w.usage, w.fault).as_bytes()),
            hash_combine(sep.code.unwrap_or(-1) as u64, (sep.stdout.is_empty() as u64) * 2 + sep.stderr.is_empty() as u64),
        ));
        res.nontrivial = !sep.stdout.is_empty() || !sep.stderr.is_empty();

        let world_json = |sep: &ProcResult, shared: &ProcResult| {
            J::obj(vec![
                ("argv", J::A(args.iter().map(|a| J::s(a.to_string_lossy().to_string())).collect())),
                ("environment", J::A(spec.env.iter().map(|(k, v)| J::s(format!("{}={}", k, v))).collect())),
                ("file_fault", J::s(format!("{:?}", w.fault))),
                ("file_reached_via", J::s(format!("{:?}", w.file_via))),
                ("working_directory_removed", J::Bool(w.removed_cwd)),
                ("stdout_reader_stalled_800ms", J::Bool(w.stalled_reader)),
                ("stdin_is_terminal", J::Bool(w.tty.0)),
                ("stdout_is_terminal", J::Bool(w.tty.1)),
                ("stderr_is_terminal", J::Bool(w.stderr_tty)),
                ("source_kind", J::s(w.source_kind)),
                ("file_contents", J::S(render_bytes(&w.source))),
                ("stdin_kind", J::s(format!("{:?}", w.stdin_kind))),
                (
                    "stdin_slow_producer_pauses_at",
                    J::s(w.stdin_cuts.iter().map(|c| c.to_string()).collect::<Vec<_>>().join(",")),
                ),
                ("stdin", J::S(render_bytes(&w.stdin[..w.stdin.len().min(2000)]))),
                ("stdin_bytes", J::U(w.stdin.len() as u64)),
                ("binary_separate_streams", sep.to_json()),
                ("binary_shared_stream", shared.to_json()),
                (
                    "library",
                    match &lib {
                        Err(e) => J::s(format!("skipped: {}", e)),
                        Ok(LibRef::ParseError(m)) => J::s(format!("ParseError: {}", m)),
                        Ok(LibRef::ParseErrorWithoutText) => J::s("ParseError (rendering its text panics)"),
                        Ok(LibRef::Exec { out, error }) => J::obj(vec![
                            ("output", J::S(render_bytes(out))),
                            ("error", error.clone().map_or(J::Null, J::S)),
                        ]),
                        Ok(LibRef::Tree(t)) => J::s(t.clone()),
                        Ok(LibRef::Lint(d)) => J::A(
                            d.iter()
                                .map(|(l, i, s)| J::s(format!("line {}: {} / {}", l, i, s.join(" / "))))
                                .collect(),
                        ),
                    },
                ),
            ])
        };

        if std::env::var("VERIF_DUMP").is_ok() {
            eprintln!("{}", world_json(&sep, &shared).pretty());
        }
        if let Some((rule, detail)) = judge(&w, &lib, &sep, &shared) {
            res.violation = Some(Violation {
                rule: rule.to_string(),
                detail,
                render: world_json(&sep, &shared),
                // what a misbehaving child prints may vary from run to run
                // (thread ids, how much output was lost): the identity of
                // the violation is the world and the rule
                log_hash: hash_combine(key, hash_bytes(rule.as_bytes())),
                tags: vec![format!("sub:{}", w.sub.name()), format!("fault:{:?}", w.fault)],
            });
            return res;
        }
        if ctx.want_sample {
            let mut small_sep = sep.clone();
            small_sep.stdout.truncate(400);
            let mut small_shared = shared.clone();
            if let Some(c) = &mut small_shared.combined {
                c.truncate(400);
            }
            res.sample = Some(world_json(&small_sep, &small_shared));
        }
        res
    }
}
