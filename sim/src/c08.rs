//! C08 — input and output happen once each, in program order, and I/O
//! faults are errors. Stream world + fault enumeration + history oracle.

use std::io::ErrorKind;
use std::panic::{catch_unwind, AssertUnwindSafe};

use rrss::frontend::ast::Program;

use crate::driver::*;
use crate::gen::{gen_input, Gen};
use crate::json::{render_bytes, J};
use crate::render::render;
use crate::rng::{hash_bytes, hash_combine};
use crate::script::{expect, Expect, Outcome, Script};
use crate::stream::*;
use crate::tape::Tape;

pub struct C08;

#[derive(Clone, Copy, PartialEq, Eq, Debug)]
pub enum Entry {
    /// exec::exec_using on a parsed program
    ExecUsing,
    /// cli::exec::run_using on the source text
    RunUsing,
}

pub enum RunResult {
    Ok,
    Err(String),
    Panic(String),
}

pub struct ExecRecord {
    pub world: World,
    pub result: RunResult,
}

thread_local! {
    static LAST_PANIC: std::cell::RefCell<Option<String>> = std::cell::RefCell::new(None);
    static IN_SUT: std::cell::Cell<bool> = std::cell::Cell::new(false);
}

/// Runs `f` (code under test) with panics caught and silenced; panics outside
/// such a region are harness bugs and are printed.
pub fn guarded<T>(f: impl FnOnce() -> T) -> Result<T, String> {
    let before = IN_SUT.with(|g| g.replace(true));
    let r = catch_unwind(AssertUnwindSafe(f));
    IN_SUT.with(|g| g.set(before));
    r.map_err(|_| take_panic_message())
}

pub fn install_quiet_panic_hook() {
    std::panic::set_hook(Box::new(|info| {
        let msg = if let Some(s) = info.payload().downcast_ref::<&str>() {
            s.to_string()
        } else if let Some(s) = info.payload().downcast_ref::<String>() {
            s.clone()
        } else {
            "<non-string panic>".to_string()
        };
        let loc = info
            .location()
            .map(|l| format!(" at {}:{}", l.file(), l.line()))
            .unwrap_or_default();
        if !IN_SUT.with(|g| g.get()) {
            eprintln!("HARNESS PANIC: {}{}", msg, loc);
            if std::env::var("VERIF_DEBUG").is_ok() {
                eprintln!("{}", std::backtrace::Backtrace::force_capture());
            }
        }
        LAST_PANIC.with(|p| *p.borrow_mut() = Some(format!("{}{}", msg, loc)));
    }));
}

pub fn take_panic_message() -> String {
    LAST_PANIC
        .with(|p| p.borrow_mut().take())
        .unwrap_or_else(|| "<unknown panic>".into())
}

/// One simulated execution of the real interpreter against the stream world.
pub fn execute(
    program: &Program,
    source: &str,
    input: &[u8],
    sched: Schedule,
    entry: Entry,
    call_budget: usize,
) -> ExecRecord {
    crate::driver::heartbeat();
    let world = World::new(input.to_vec(), sched, call_budget);
    let r = SimReader(world.clone());
    let w = SimWriter(world.clone());
    let result = guarded(|| match entry {
        Entry::ExecUsing => match rrss::exec::exec_using(r, w, program) {
            Ok(()) => RunResult::Ok,
            Err(e) => RunResult::Err(e.to_string()),
        },
        Entry::RunUsing => match rrss::cli::exec::run_using(r, w, source) {
            Ok(_) => RunResult::Ok,
            Err(e) => RunResult::Err(e.to_string()),
        },
    });
    let result = match result {
        Ok(r) => r,
        Err(msg) => RunResult::Panic(msg),
    };
    let world = match std::rc::Rc::try_unwrap(world) {
        Ok(cell) => cell.into_inner(),
        Err(rc) => {
            // the interpreter leaked a stream handle (e.g. through a panic
            // payload); take a snapshot instead
            let w = rc.borrow();
            World::snapshot(&w)
        }
    };
    ExecRecord { world, result }
}

/// The input the program can actually see under this schedule: a premature
/// end of input truncates it.
fn effective_input<'a>(input: &'a [u8], sched: &Schedule) -> &'a [u8] {
    match sched.read_fault {
        Some((ReadFaultAt::Byte(p), ReadFaultKind::Eof)) if p < input.len() => &input[..p],
        _ => input,
    }
}

fn first_diff(a: &[u8], b: &[u8]) -> usize {
    a.iter().zip(b.iter()).position(|(x, y)| x != y).unwrap_or(a.len().min(b.len()))
}

/// The oracle. Returns (rule, detail) of the first violated rule.
pub fn judge(rec: &ExecRecord, exp: &Expect) -> Option<(&'static str, String)> {
    let w = &rec.world;
    // P7 no panic, bounded progress
    if let RunResult::Panic(msg) = &rec.result {
        if msg.contains("SIM-BUDGET") {
            return Some((
                "C08.P7-progress",
                "the run kept calling the streams after the call budget was exhausted".into(),
            ));
        }
        return Some(("C08.P7-panic", format!("interpreter panicked: {}", msg)));
    }
    if w.budget_exceeded {
        return Some((
            "C08.P7-progress",
            format!("more than {} stream calls in one run", w.call_budget),
        ));
    }
    // P2 nothing is read or written after the fault
    if w.calls_after_fault > 0 {
        return Some((
            "C08.P2-stop-at-fault",
            format!(
                "{} stream call(s) after the first hard fault (event #{})",
                w.calls_after_fault,
                w.fault_at_event.unwrap_or(0)
            ),
        ));
    }
    let damaged = exp.outcome == Outcome::Damaged;
    if let Some(fe) = w.fault_at_event {
        // P3 a hard fault is a runtime error
        if !matches!(rec.result, RunResult::Err(_)) {
            return Some((
                "C08.P3-fault-is-error",
                format!("a hard fault was injected at event #{} but the run returned Ok", fe),
            ));
        }
        // P4 progress point
        match &w.events[fe] {
            Ev::Write { .. } | Ev::Flush { .. } => {
                if !exp.out.starts_with(&w.accepted) {
                    let d = first_diff(&exp.out, &w.accepted);
                    return Some((
                        "C08.P4-intact-before-fault",
                        format!(
                            "output accepted before the writer fault is not a prefix of the expected output (first difference at byte {})",
                            d
                        ),
                    ));
                }
            }
            Ev::Read { .. } => {
                // which listen was executing: last read point
                let (j, _) = *w.read_points.last().unwrap();
                if j == 0 || j > exp.listen_marks.len() {
                    if !damaged {
                        return Some((
                            "C08.P5-say-before-listen",
                            format!("a read was issued for listen #{} but the program executes only {} listens", j, exp.listen_marks.len()),
                        ));
                    }
                } else {
                    let want = &exp.out[..exp.listen_marks[j - 1]];
                    if w.accepted != want {
                        return Some((
                            "C08.P4-intact-before-fault",
                            format!(
                                "reader failed during listen #{}: output is {} bytes, expected exactly the {} bytes said before that listen",
                                j,
                                w.accepted.len(),
                                want.len()
                            ),
                        ));
                    }
                }
            }
        }
    } else if damaged {
        // input is not a text: only prefix consistency is required
        let common = first_diff(&exp.out, &w.accepted);
        if common < exp.out.len().min(w.accepted.len()) || w.accepted.len() < exp.out.len() {
            return Some((
                "C08.P1-content",
                "output before the damaged input line differs from the expected output".into(),
            ));
        }
        return None;
    } else {
        // P3 result
        match (&rec.result, &exp.outcome) {
            (RunResult::Ok, Outcome::Ok) => {}
            (RunResult::Err(_), Outcome::Die) => {}
            (RunResult::Err(e), Outcome::Ok) => {
                return Some((
                    "C08.P3-result",
                    format!("no fault was injected and the script cannot fail, but the run returned Err({})", e),
                ))
            }
            (RunResult::Ok, Outcome::Die) => {
                return Some((
                    "C08.P3-result",
                    "the script reaches a statement that raises a runtime error, but the run returned Ok".into(),
                ))
            }
            _ => {}
        }
        // P1 content
        if w.accepted != exp.out {
            let d = first_diff(&exp.out, &w.accepted);
            return Some((
                "C08.P1-content",
                format!(
                    "output differs from the expected output at byte {} (got {} bytes, expected {})",
                    d,
                    w.accepted.len(),
                    exp.out.len()
                ),
            ));
        }
    }
    // P5 at every read call everything said before the executing listen has
    // been delivered, and nothing said after it
    if !damaged {
        for (k, (j, out_len)) in w.read_points.iter().enumerate() {
            if *j == 0 || *j > exp.listen_marks.len() {
                return Some((
                    "C08.P5-say-before-listen",
                    format!(
                        "read call #{} belongs to listen #{} but the program executes only {} listens (a listen consumed more or less than one line)",
                        k,
                        j,
                        exp.listen_marks.len()
                    ),
                ));
            }
            if *out_len != exp.listen_marks[*j - 1] {
                return Some((
                    "C08.P5-say-before-listen",
                    format!(
                        "at read call #{} (listen #{}) {} bytes of output had been delivered, expected exactly {}",
                        k,
                        j,
                        out_len,
                        exp.listen_marks[*j - 1]
                    ),
                ));
            }
        }
    }
    None
}

pub struct Scenario {
    pub script: Script,
    pub source: String,
    pub input: Vec<u8>,
    pub entry: Entry,
}

pub fn gen_scenario(tape: &mut Tape) -> Scenario {
    let script = Gen::new(tape).script();
    let style = if tape.chance(3, 4) { tape.seed64() } else { 0 };
    let source = render(&script, style);
    let input = gen_input(tape);
    let entry = if tape.chance(1, 4) {
        Entry::RunUsing
    } else {
        Entry::ExecUsing
    };
    Scenario {
        script,
        source,
        input,
        entry,
    }
}

const WRITE_KINDS: [WriteFaultKind; 9] = [
    WriteFaultKind::Hard(ErrorKind::BrokenPipe),
    WriteFaultKind::Zero,
    WriteFaultKind::Hard(ErrorKind::StorageFull),
    WriteFaultKind::Hard(ErrorKind::WouldBlock),
    WriteFaultKind::Hard(ErrorKind::Other),
    WriteFaultKind::Hard(ErrorKind::TimedOut),
    WriteFaultKind::Hard(ErrorKind::ConnectionReset),
    WriteFaultKind::Hard(ErrorKind::WriteZero),
    WriteFaultKind::Hard(ErrorKind::PermissionDenied),
];
const READ_HARD_KINDS: [ErrorKind; 9] = [
    ErrorKind::Other,
    ErrorKind::ConnectionReset,
    ErrorKind::WouldBlock,
    ErrorKind::UnexpectedEof,
    ErrorKind::InvalidData,
    ErrorKind::TimedOut,
    ErrorKind::BrokenPipe,
    ErrorKind::PermissionDenied,
    ErrorKind::OutOfMemory,
];

fn noisy(tape: &mut Tape) -> Schedule {
    let mut s = Schedule::plain();
    s.chunk = [ChunkMode::Random, ChunkMode::Byte, ChunkMode::Line, ChunkMode::All]
        [tape.draw(4) as usize];
    s.short_writes = tape.chance(2, 3);
    s.eintr_read_pm = [0, 100, 300][tape.draw(3) as usize];
    s.eintr_write_pm = [0, 100, 300][tape.draw(3) as usize];
    s.seed = tape.seed64();
    s
}

fn sample_positions(tape: &mut Tape, n: usize, cap: usize, must: &[usize]) -> Vec<usize> {
    if n <= cap {
        return (0..n).collect();
    }
    let mut set = std::collections::BTreeSet::new();
    for m in must {
        if *m < n {
            set.insert(*m);
        }
    }
    set.insert(0);
    set.insert(n - 1);
    // bounded: a replayed (shrunk) tape may return the same value for ever
    let mut attempts = 0;
    while set.len() < cap && attempts < cap * 3 {
        set.insert(tape.draw(n as u32) as usize);
        attempts += 1;
    }
    let mut next = 0;
    while set.len() < cap {
        set.insert(next);
        next += 1;
    }
    set.into_iter().collect()
}

impl C08 {
    fn violation(
        sc: &Scenario,
        sched: &Schedule,
        rec: &ExecRecord,
        exp: &Expect,
        rule: &str,
        detail: String,
    ) -> Violation {
        let result = match &rec.result {
            RunResult::Ok => "Ok".to_string(),
            RunResult::Err(e) => format!("Err({})", e),
            RunResult::Panic(m) => format!("PANIC({})", m),
        };
        Violation {
            rule: rule.to_string(),
            detail,
            render: J::obj(vec![
                ("program", J::s(sc.source.clone())),
                ("input", J::S(render_bytes(&sc.input))),
                ("entry", J::s(format!("{:?}", sc.entry))),
                ("schedule", sched.to_json()),
                ("result", J::s(result)),
                ("output_accepted", rec.world.accepted_json()),
                ("expected_output", J::S(render_bytes(&exp.out))),
                ("expected_outcome", J::s(format!("{:?}", exp.outcome))),
                (
                    "expected_output_length_before_each_listen",
                    J::A(exp.listen_marks.iter().map(|m| J::U(*m as u64)).collect()),
                ),
                ("events", rec.world.events_json(80)),
            ]),
            log_hash: rec.world.exact_hash(),
            tags: Vec::new(),
        }
    }
}

impl Property for C08 {
    fn id(&self) -> &'static str {
        "C08"
    }

    fn plan(&self, tier: Tier) -> Plan {
        match tier {
            Tier::Quick => Plan {
                scenarios: 2500,
                time_cap_s: 60,
                shrink_budget: 1500,
            },
            Tier::Thorough => Plan {
                scenarios: 150_000,
                time_cap_s: 600,
                shrink_budget: 3000,
            },
        }
    }

    fn evidence_info(&self) -> EvidenceInfo {
        EvidenceInfo {
            level: "fault_enumeration",
            rule: "A scenario is a generated I/O script (say/listen interleaved with loops, branches, function calls, fillers, optional terminal runtime error) rendered to Rockstar with seeded spellings, plus a generated input text; it is executed fault-free under four delivery modes and benign noisy schedules (random chunking, short writes, finite EINTR bursts), then with one hard fault at every byte offset of the expected output (writer: error kinds / Ok(0)) and every byte offset of the input and every read call (reader: error kinds / premature EOF) - thorough: all positions when <= 1500 (only scenarios with a line longer than the 8 KiB read buffer exceed that; they get 1500 positions incl. all line/say boundaries); quick: all positions when <= 48 else 48 sampled (boundaries kept) - each under plain and noisy delivery. evaluations = executions of the real interpreter. A scenario counts as non-trivial when its expected trace has at least one say and one listen and at least one injected hard fault fired; distinct = distinct hash of (program text, input).".into(),
            assumptions: vec![
                "The executing listen at a read call is identified as (newlines delivered + Ok(0) returned + 1): the interpreter asks the Read for more only while a listen executes and no complete line is buffered (lazy line reading at the Read seam).".into(),
                "Line terminator is '\\n'; inputs with '\\r' directly before '\\n' are not generated.".into(),
                "The reference evaluator of the script IR (sim/src/script.rs) and the renderer's Rockstar fragment; validated by exact agreement of all fault-free executions on the unchanged tree.".into(),
                "Which RuntimeError variant/message an I/O fault maps to is not constrained; persistent EINTR and allocation failure are out of scope.".into(),
                "Inputs that are not valid UTF-8 (torn/flipped bytes) get a narrowed oracle: no panic, stop at fault, output intact up to the damaged line.".into(),
                "Process arm: 'the program is blocked' is decided by the peer's patience (15 s of silence where the program needs microseconds); which byte of a failing standard output the error is attributed to is not constrained, only that a runtime error is reported and the program stops without further input.".into(),
            ],
            components_real: vec![
                "rrss::frontend::parser::parse".into(),
                "rrss::exec::exec_using (interpreter, Environment, std BufReader::read_line, write_fmt/write_all)".into(),
                "rrss::cli::exec::run_using (a quarter of the scenarios)".into(),
                "process arm (every 8th scenario in quick, every 4th in thorough): the real rrss binary (`rrss exec`) with real pipes as stdin/stdout, driven by a simulated interactive peer; its stdout made to fail (closed pipe at a chosen listen, full device)".into(),
            ],
            components_stub: vec![
                "input stream (SimReader) and output stream (SimWriter): simulated, every call scheduled and recorded".into(),
                "the interactive peer: none (input is a fixed text; ordering is observed at the read calls)".into(),
                "process arm: the peer of the real binary (hands over line j after the output expected before listen j has arrived; shuts standard output down) and, in every other such scenario, the child's clocks (preloaded shim sim/clockshim: skewed wall clock, 0.7-90 s per reading)".into(),
            ],
            step_unit: "stream calls (read/write/flush) made by the interpreter",
            history_measure: "distinct sequences of stream events of one execution, by kind (read data / EOF / EINTR / hard error / after-fault, write accepted full / short / EINTR / Ok(0) / hard error / after-fault, flush) with sizes bucketed (0,1,2-3,4-7,8-31,32+)",
        }
    }

    fn run(&self, tape: &mut Tape, ctx: &Ctx, stats: &mut Stats) -> ScenarioResult {
        let sc = gen_scenario(tape);
        let key = hash_combine(hash_bytes(sc.source.as_bytes()), hash_bytes(&sc.input));
        let mut res = ScenarioResult {
            violation: None,
            executions: 0,
            steps: 0,
            key,
            nontrivial: false,
            histories: Vec::new(),
            sample: None,
            digest: key,
        };
        let program = match guarded(|| rrss::frontend::parser::parse(&sc.source).map_err(|e| e.to_string())) {
            Ok(Ok(p)) => p,
            Ok(Err(e)) => {
                stats.inc("count.skipped_parse_error");
                if ctx.want_sample {
                    res.sample = Some(J::obj(vec![
                        ("program", J::s(sc.source.clone())),
                        ("skipped", J::s(format!("parse error: {}", e))),
                    ]));
                }
                if std::env::var("VERIF_DEBUG").is_ok() {
                    eprintln!("PARSE ERROR: {}\n{}", e, sc.source);
                }
                return res;
            }
            Err(_) => {
                stats.inc("count.skipped_parser_panic");
                return res;
            }
        };
        let full = expect(&sc.script, &sc.input);
        if full.runaway {
            stats.inc("count.skipped_runaway_script");
            return res;
        }
        let thorough = ctx.tier == Tier::Thorough;
        let mut hist: std::collections::BTreeSet<u64> = std::collections::BTreeSet::new();
        let mut any_fault_fired = false;

        // run + judge one execution; returns true if a violation was recorded
        let mut run_one = |sched: Schedule,
                           res: &mut ScenarioResult,
                           stats: &mut Stats,
                           hist: &mut std::collections::BTreeSet<u64>,
                           any_fault_fired: &mut bool,
                           torn: Option<&[u8]>|
         -> bool {
            let input: &[u8] = torn.unwrap_or(&sc.input);
            let eff = effective_input(input, &sched);
            let exp_owned;
            let exp: &Expect = if eff.len() == sc.input.len() && torn.is_none() {
                &full
            } else {
                exp_owned = expect(&sc.script, eff);
                &exp_owned
            };
            if let Some((_, k)) = sched.read_fault {
                stats.inc(match k {
                    ReadFaultKind::Hard(_) => "fault.configured.read.hard",
                    ReadFaultKind::Eof => "fault.configured.read.premature_eof",
                });
            }
            if let Some((_, k)) = sched.write_fault {
                stats.inc(match k {
                    WriteFaultKind::Hard(_) => "fault.configured.write.hard",
                    WriteFaultKind::Zero => "fault.configured.write.zero",
                });
            }
            if sched.eintr_read_pm > 0 {
                stats.inc("fault.configured.read.eintr");
            }
            if sched.eintr_write_pm > 0 {
                stats.inc("fault.configured.write.eintr");
            }
            if sched.short_writes {
                stats.inc("fault.configured.write.short");
            }
            // generous bound: every byte moved one at a time, every call
            // interrupted a few times
            let budget = 4000 + 6 * (input.len() + exp.out.len());
            let rec = execute(&program, &sc.source, input, sched.clone(), sc.entry, budget);
            res.executions += 1;
            res.steps += rec.world.calls as u64;
            res.digest = hash_combine(res.digest, rec.world.exact_hash());
            hist.insert(rec.world.history_hash());
            let mut seen: Vec<&str> = Vec::new();
            for f in &rec.world.fired {
                if !seen.contains(f) {
                    seen.push(f);
                    stats.inc(&format!("fault.fired.{}", f));
                }
            }
            if rec.world.fault_at_event.is_some() {
                *any_fault_fired = true;
                // probes: where did the fault land
                if let Some(Ev::Write { len: 1, .. }) = rec.world.fault_at_event.map(|i| &rec.world.events[i]) {
                    stats.inc("probe.fault_on_newline_write");
                }
                if exp.io_in_call_in_say {
                    stats.inc("probe.fault_in_script_with_io_inside_call_inside_say");
                }
            }
            if rec.world.probe_short_write_split_char {
                stats.inc("probe.short_write_splitting_multibyte_char");
            }
            if rec.world.probe_eintr_before_newline {
                stats.inc("probe.eintr_before_newline_write");
            }
            if rec.world.probe_read_split_char {
                stats.inc("probe.read_chunk_splitting_multibyte_char");
            }
            if exp.outcome == Outcome::Damaged {
                stats.inc("probe.input_not_utf8");
            }
            if let Some((rule, detail)) = judge(&rec, exp) {
                res.violation = Some(C08::violation(&sc, &sched, &rec, exp, rule, detail));
                return true;
            }
            false
        };

        macro_rules! go {
            ($sched:expr) => {
                if run_one($sched, &mut res, stats, &mut hist, &mut any_fault_fired, None) {
                    res.histories = hist.into_iter().collect();
                    return res;
                }
            };
        }

        // (a) fault-free, four delivery modes
        for mode in [ChunkMode::All, ChunkMode::Line, ChunkMode::Byte, ChunkMode::Random] {
            let mut s = Schedule::plain();
            s.chunk = mode;
            s.seed = 7;
            go!(s);
        }
        // (b) benign noise
        let nb = if thorough { 8 } else { 3 };
        for _ in 0..nb {
            let s = noisy(tape);
            go!(s);
        }
        // probes on the expected trace
        if full.listens_past_eof > 0 {
            stats.inc("probe.listen_past_eof");
        }
        if full.empty_says > 0 {
            stats.inc("probe.empty_say");
        }
        if full.outcome == Outcome::Die && !full.out.is_empty() {
            stats.inc("probe.runtime_error_after_output");
        }
        if !sc.input.is_empty() && *sc.input.last().unwrap() != b'\n' {
            stats.inc("probe.input_without_final_newline");
        }
        if full.io_in_call_in_say {
            stats.inc("probe.io_inside_call_inside_say");
        }

        // (c) single hard fault at every position
        // thorough: every position up to 1500 (covers every scenario except
        // those with a line longer than the 8 KiB read buffer, which are
        // sampled: 1500 positions incl. all line/say boundaries)
        let cap = if thorough { 1500 } else { 48 };
        // inputs with very long lines: fewer positions (each run moves a lot)
        let cap = if sc.input.len() > 20_000 { cap.min(if thorough { 200 } else { 12 }) } else { cap };
        let kinds_per_pos = if thorough { 4 } else { 1 };
        // writer: every byte offset of the expected output
        let say_bounds: Vec<usize> = full
            .says
            .iter()
            .flat_map(|(s, e)| [*s, e.saturating_sub(1), *e])
            .collect();
        let wpos = sample_positions(tape, full.out.len() + 1, cap, &say_bounds);
        let k0 = tape.draw(WRITE_KINDS.len() as u32) as usize;
        let noisy_w = noisy(tape);
        for (n, p) in wpos.iter().enumerate() {
            for k in 0..kinds_per_pos {
                let kind = WRITE_KINDS[(k0 + n + 2 * k) % WRITE_KINDS.len()];
                let mut s = Schedule::plain();
                s.write_fault = Some((*p, kind));
                go!(s);
                // the same fault under noisy delivery (benign noise, then the hard fault)
                let mut s = noisy_w.clone();
                s.seed = s.seed.wrapping_add(n as u64);
                s.write_fault = Some((*p, kind));
                go!(s);
            }
        }
        // reader: every byte offset of the input
        let mut line_bounds: Vec<usize> = Vec::new();
        for (i, b) in sc.input.iter().enumerate() {
            if *b == b'\n' {
                line_bounds.extend([i.saturating_sub(1), i, i + 1]);
            }
        }
        let rpos = sample_positions(tape, sc.input.len() + 1, cap, &line_bounds);
        let r0 = tape.draw(READ_HARD_KINDS.len() as u32) as usize;
        let noisy_r = noisy(tape);
        let hard_per_pos = if thorough { 3 } else { 1 };
        for (n, p) in rpos.iter().enumerate() {
            // at every position: hard errors (kinds rotate over positions) and
            // a premature end of input, under plain delivery
            let mut kinds: Vec<ReadFaultKind> = (0..hard_per_pos)
                .map(|k| ReadFaultKind::Hard(READ_HARD_KINDS[(r0 + n + 4 * k) % READ_HARD_KINDS.len()]))
                .collect();
            kinds.push(ReadFaultKind::Eof);
            for (k, kind) in kinds.iter().enumerate() {
                let mut s = Schedule::plain();
                s.read_fault = Some((ReadFaultAt::Byte(*p), *kind));
                go!(s);
                // and after benign noise (thorough: every kind; quick: one)
                if thorough || k == n % kinds.len() {
                    let mut s = noisy_r.clone();
                    s.seed = s.seed.wrapping_add(n as u64);
                    s.read_fault = Some((ReadFaultAt::Byte(*p), *kind));
                    go!(s);
                }
            }
        }
        // reader: every read call index under byte-wise and line-wise delivery
        for mode in [ChunkMode::Line, ChunkMode::Random] {
            let ncalls = full.listen_marks.len() + sc.input.iter().filter(|b| **b == b'\n').count() + 2;
            let cpos = sample_positions(tape, ncalls, if thorough { 256 } else { 16 }, &[]);
            for (n, c) in cpos.iter().enumerate() {
                let mut s = Schedule::plain();
                s.chunk = mode;
                s.seed = 11 + n as u64;
                s.read_fault = Some((
                    ReadFaultAt::Call(*c),
                    ReadFaultKind::Hard(READ_HARD_KINDS[(r0 + n) % READ_HARD_KINDS.len()]),
                ));
                go!(s);
            }
        }
        // both streams set to fail: whichever is reached first must end the run
        for n in 0..(if thorough { 12 } else { 4 }) {
            let mut s = if n % 2 == 0 { Schedule::plain() } else { noisy_r.clone() };
            s.seed = s.seed.wrapping_add(100 + n as u64);
            let wp = tape.draw(full.out.len() as u32 + 1) as usize;
            let rp = tape.draw(sc.input.len() as u32 + 1) as usize;
            s.write_fault = Some((wp, WRITE_KINDS[(k0 + n) % WRITE_KINDS.len()]));
            s.read_fault = Some((
                ReadFaultAt::Byte(rp),
                ReadFaultKind::Hard(READ_HARD_KINDS[(r0 + n) % READ_HARD_KINDS.len()]),
            ));
            stats.inc("count.runs_with_both_streams_set_to_fail");
            go!(s);
        }
        // flush fault: only observable if the interpreter flushes
        {
            let mut s = Schedule::plain();
            s.flush_fault = true;
            go!(s);
        }
        // (d) torn / flipped input bytes (not a text: narrowed oracle)
        if !sc.input.is_empty() && tape.chance(1, 3) {
            let mut torn = sc.input.clone();
            let p = tape.draw(torn.len() as u32) as usize;
            if torn[p] != b'\n' {
                torn[p] = 0xFF;
                stats.inc("fault.configured.read.flipped_byte");
                let s = noisy(tape);
                if run_one(s, &mut res, stats, &mut hist, &mut any_fault_fired, Some(&torn)) {
                    res.histories = hist.into_iter().collect();
                    return res;
                }
                stats.inc("fault.fired.read.flipped_byte");
            }
        }

        // (e) process arm: the real binary driven by a simulated interactive
        // peer over pipes, for a sample of the scenarios
        let nth = if thorough { 4 } else { 8 };
        if ctx.index % nth == 0 && crate::c08proc::applicable(&sc, &full) {
            use crate::c08proc::{closable_listens, run_peer, StdoutFault};
            let scratch = match crate::procworld::Scratch::new() {
                Ok(s) => s,
                Err(e) => {
                    eprintln!("HARNESS ERROR: scratch dir: {}", e);
                    std::process::exit(2);
                }
            };
            let mut arms = vec![StdoutFault::None];
            let closable = closable_listens(&full, &sc.input);
            if !closable.is_empty() {
                arms.push(StdoutFault::ClosedAtListen(
                    closable[tape.draw(closable.len() as u32) as usize],
                ));
            }
            if !full.out.is_empty() {
                arms.push(StdoutFault::DevFull);
            }
            for arm in arms {
                let name = match arm {
                    StdoutFault::None => "process.none",
                    StdoutFault::ClosedAtListen(_) => "process.stdout_pipe_closed_at_listen",
                    StdoutFault::DevFull => "process.stdout_full_device",
                };
                if arm != StdoutFault::None {
                    stats.inc(&format!("fault.configured.{}", name));
                }
                match run_peer(&sc, &full, &scratch, arm) {
                    Err(e) => {
                        eprintln!("HARNESS ERROR (process arm): {}", e);
                        std::process::exit(2);
                    }
                    Ok(o) => {
                        res.executions += o.spawns;
                        res.steps += o.spawns;
                        stats.inc("count.process_arm_dialogues");
                        if o.stdout_fault_fired {
                            stats.inc(&format!("fault.fired.{}", name));
                        }
                        if let Some((rule, detail, render)) = o.violation {
                            res.violation = Some(Violation {
                                rule: rule.to_string(),
                                detail,
                                render,
                                log_hash: hash_combine(key, hash_bytes(rule.as_bytes())),
                                tags: vec!["process-arm".into()],
                            });
                            res.histories = hist.into_iter().collect();
                            return res;
                        }
                    }
                }
            }
            if !full.listen_marks.is_empty() {
                stats.inc("fault.configured.process.stdin_unreadable");
                match crate::c08proc::run_unreadable_stdin(&sc, &full, &scratch) {
                    Err(e) => {
                        eprintln!("HARNESS ERROR (process arm): {}", e);
                        std::process::exit(2);
                    }
                    Ok(o) => {
                        res.executions += o.spawns;
                        res.steps += o.spawns;
                        stats.inc("fault.fired.process.stdin_unreadable");
                        if let Some((rule, detail, render)) = o.violation {
                            res.violation = Some(Violation {
                                rule: rule.to_string(),
                                detail,
                                render,
                                log_hash: hash_combine(key, hash_bytes(rule.as_bytes())),
                                tags: vec!["process-arm".into()],
                            });
                            res.histories = hist.into_iter().collect();
                            return res;
                        }
                    }
                }
            }
            if !full.listen_marks.is_empty() && !full.says.is_empty() {
                stats.inc("probe.process_dialogue_with_say_and_listen");
            }
        }

        res.nontrivial = !full.says.is_empty() && !full.listen_marks.is_empty() && any_fault_fired;
        res.histories = hist.into_iter().collect();
        if ctx.want_sample {
            res.sample = Some(J::obj(vec![
                ("program", J::s(sc.source.clone())),
                ("input", J::S(render_bytes(&sc.input))),
                ("entry", J::s(format!("{:?}", sc.entry))),
                ("expected_output", J::S(render_bytes(&full.out))),
                ("expected_outcome", J::s(format!("{:?}", full.outcome))),
                ("executions", J::U(res.executions)),
                (
                    "example_fault_schedule",
                    {
                        let mut s = noisy_w.clone();
                        s.write_fault = Some((full.out.len() / 2, WRITE_KINDS[k0]));
                        s.to_json()
                    },
                ),
            ]));
        }
        res
    }
}
