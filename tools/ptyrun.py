#!/usr/bin/env python3
"""Runs a command with its standard input and/or standard output connected to a
pseudo-terminal (the rest to files), feeds it the given input, and records what
it wrote and how it ended. Used by the process world of the rrss checks for
"stdin/stdout is a terminal" worlds. No third-party modules.

usage: ptyrun.py STDIN_TTY STDOUT_TTY STDERR_TTY INPUT_FILE OUT_FILE ERR_FILE STATUS_FILE CWD -- ARGV...
       STDIN_TTY, STDOUT_TTY, STDERR_TTY: 0 or 1
The child's environment is this process's environment.
"""
import os, pty, select, subprocess, sys, termios, time

def main():
    a = sys.argv[1:]
    sep = a.index("--")
    stdin_tty, stdout_tty, stderr_tty = a[0] == "1", a[1] == "1", a[2] == "1"
    input_file, out_file, err_file, status_file, cwd = a[3:8]
    argv = a[sep + 1:]
    data = open(input_file, "rb").read()
    m_in = s_in = m_out = s_out = m_err = s_err = None
    if stdin_tty:
        m_in, s_in = pty.openpty()
        t = termios.tcgetattr(s_in)
        t[0] = 0                      # iflag: no CR/NL translation, no stripping, no flow control
        t[1] = 0                      # oflag
        t[3] = termios.ICANON         # lflag: line mode (so that VEOF works), no echo, no signals
        cc = t[6]
        for name in ("VERASE", "VKILL", "VWERASE", "VLNEXT", "VREPRINT", "VEOL", "VEOL2", "VINTR", "VQUIT", "VSUSP", "VSTART", "VSTOP", "VDISCARD"):
            if hasattr(termios, name):
                cc[getattr(termios, name)] = b"\x00"
        cc[termios.VEOF] = b"\x04"
        termios.tcsetattr(s_in, termios.TCSANOW, t)
        child_in = s_in
    else:
        child_in = open(input_file, "rb")
    if stdout_tty:
        m_out, s_out = pty.openpty()
        t = termios.tcgetattr(s_out)
        t[1] = 0                      # oflag: no NL -> CR NL
        termios.tcsetattr(s_out, termios.TCSANOW, t)
        child_out = s_out
    else:
        child_out = open(out_file, "wb")
    if stderr_tty:
        m_err, s_err = pty.openpty()
        t = termios.tcgetattr(s_err)
        t[1] = 0
        termios.tcsetattr(s_err, termios.TCSANOW, t)
        err = s_err
    else:
        err = open(err_file, "wb")
    p = subprocess.Popen(argv, stdin=child_in, stdout=child_out, stderr=err, cwd=cwd, close_fds=True)
    if s_err is not None:
        os.close(s_err)
    captured_err = bytearray()
    err_open = m_err is not None
    if s_in is not None:
        os.close(s_in)
    if s_out is not None:
        os.close(s_out)
    captured = bytearray()
    pending = bytearray(data + b"\x04") if stdin_tty else bytearray()
    # On a terminal end-of-input is not sticky: every further read after ^D
    # waits again. A program that keeps listening past the end of its input
    # gets one more ^D per read, as a user would type it.
    extra_eofs = 0
    last_eof = time.time()
    deadline = time.time() + 25
    timed_out = False
    out_open = m_out is not None
    while True:
        if stdin_tty and not pending and p.poll() is None and extra_eofs < 5000 and time.time() - last_eof > 0.004:
            pending += b"\x04"
            extra_eofs += 1
            last_eof = time.time()
        rl = ([m_out] if out_open else []) + ([m_err] if err_open else [])
        wl = [m_in] if (m_in is not None and pending) else []
        if not rl and not wl:
            if p.poll() is not None:
                break
            if time.time() > deadline:
                timed_out = True
                break
            time.sleep(0.002)
            continue
        r, w, _ = select.select(rl, wl, [], 0.05)
        if m_out in r:
            try:
                chunk = os.read(m_out, 65536)
            except OSError:
                chunk = b""
            if chunk:
                captured += chunk
            else:
                out_open = False
        if m_err is not None and m_err in r:
            try:
                chunk = os.read(m_err, 65536)
            except OSError:
                chunk = b""
            if chunk:
                captured_err += chunk
            else:
                err_open = False
        if m_in in w:
            # one line at a time: the terminal's line buffer is small
            nl = pending.find(b"\n")
            n = (nl + 1) if nl >= 0 else len(pending)
            try:
                k = os.write(m_in, bytes(pending[:min(n, 1024)]))
                del pending[:k]
            except OSError:
                pending.clear()
        if p.poll() is not None and not out_open and not err_open:
            break
        if p.poll() is not None and (out_open or err_open):
            # drain the stderr terminal too
            if err_open:
                try:
                    while True:
                        rr, _, _ = select.select([m_err], [], [], 0.05)
                        if not rr:
                            break
                        chunk = os.read(m_err, 65536)
                        if not chunk:
                            break
                        captured_err += chunk
                except OSError:
                    pass
                err_open = False
            if not out_open:
                break
            # drain what is left
            try:
                while True:
                    rr, _, _ = select.select([m_out], [], [], 0.05)
                    if not rr:
                        break
                    chunk = os.read(m_out, 65536)
                    if not chunk:
                        break
                    captured += chunk
            except OSError:
                pass
            break
        if time.time() > deadline:
            timed_out = True
            break
    if timed_out:
        p.kill()
    rc = p.wait()
    if stdout_tty:
        open(out_file, "wb").write(bytes(captured))
    if stderr_tty:
        open(err_file, "wb").write(bytes(captured_err))
    open(status_file, "w").write("timeout\n" if timed_out else ("%d\n" % rc))

main()
