#!/usr/bin/env python3
"""Archives a sub-agent's seeded change under /verif/seeded/.

usage: archive_seed.py <src-dir> <ID> <round> <dest-kind> <result> <rules> <history> [check_property] [check_tier]
  dest-kind: breaking | benign | not-detected
The source directory holds patch.diff, a demonstration, meta.json and (for breaking
changes) confirm.txt written by tools/confirm_seeded.sh.
"""
import json, os, shutil, subprocess, sys

src, pid, rnd, kind, result, rules, history = sys.argv[1:8]
check_property = sys.argv[8] if len(sys.argv) > 8 and sys.argv[8] else None
check_tier = sys.argv[9] if len(sys.argv) > 9 and sys.argv[9] else None
src = src.rstrip('/')
name = os.path.basename(src)
base = {'breaking': '/verif/seeded', 'benign': '/verif/seeded/benign', 'not-detected': '/verif/seeded/not-detected'}[kind]
dest = os.path.join(base, f'{pid}-{name}')
os.makedirs(dest, exist_ok=True)
for f in os.listdir(src):
    p = os.path.join(src, f)
    if os.path.isfile(p) and os.path.getsize(p) < 400_000:
        shutil.copy(p, os.path.join(dest, f))
meta_path = os.path.join(dest, 'meta.json')
try:
    meta = json.load(open(meta_path))
except Exception:
    meta = {'name': name}
meta['round'] = int(rnd)
head = subprocess.run(['git', '-C', '/repo', 'rev-parse', '--short', 'HEAD'], capture_output=True, text=True).stdout.strip()
if kind == 'benign':
    meta['property'] = pid
    meta['kind'] = 'behaviour-preserving change by an independent sub-agent (property text only); the checks must stay silent'
    meta['checked_with'] = {
        'command': 'git -C /repo apply patch.diff; ./check C08 quick; ./check C10 quick; ./check C16 quick; ./check C20 quick; revert',
        'result': result,
    }
else:
    meta['breaks_property'] = pid
    conf = {}
    cp = os.path.join(dest, 'confirm.txt')
    if os.path.exists(cp):
        for line in open(cp):
            if '=' in line:
                k, v = line.strip().split('=', 1)
                conf[k] = v
    meta['confirmed_in_scratch_worktree'] = {
        'how': f"tools/confirm_seeded.sh in the sub-agent's worktree of /repo (HEAD {head}): git apply patch.diff; cargo build --offline; cargo test --workspace --no-fail-fast --offline; demonstration run without and with the patch",
        'patch_applies': conf.get('patch_applies', '?'),
        'builds': conf.get('builds', '?'),
        'tests_ok': conf.get('tests_ok', '?'),
        'tests_failed': conf.get('tests_failed', '?').strip(),
        'demo_exit_without_patch': conf.get('demo_without_patch_exit', '?'),
        'demo_exit_with_patch': conf.get('demo_with_patch_exit', '?'),
    }
    cprop = check_property or pid
    ctier = check_tier or 'quick'
    meta['checked_with'] = {
        'command': f'git -C /repo apply patch.diff; ./check {cprop} {ctier}; git -C /repo checkout -- .',
        'result': result,
        'rules': rules,
        'history': history,
    }
    if check_property and check_property != pid:
        meta['check_property'] = check_property
    if check_tier and check_tier != 'quick':
        meta['check_tier'] = check_tier
json.dump(meta, open(meta_path, 'w'), indent=1, ensure_ascii=False)
print('archived', dest)
