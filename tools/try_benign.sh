#!/bin/bash
# usage: try_benign.sh <dir-with-patch.diff> <ID>...  -- applies to /repo, runs the quick checks, reverts; expects exit 0
d=$1; shift
cd /verif
[ -z "$(git -C /repo status --porcelain)" ] || { echo "/repo dirty"; exit 2; }
trap '(git -C /repo checkout -- . && git -C /repo clean -fdq src tests) 2>/dev/null' EXIT
git -C /repo apply "$d/patch.diff" || { echo "APPLY FAILED $d"; exit 2; }
for id in "$@"; do
    out=$(timeout 1200 ./check "$id" quick 2>&1); rc=$?
    echo "== benign $(basename $d) vs $id: exit $rc"
    [ $rc -ne 0 ] && echo "$out" | grep -E "^violation|^VIOLATION|BUILD ERROR|HARNESS|error" | head -6
done
git -C /repo checkout -- . && git -C /repo clean -fdq src tests
exit 0
