#!/bin/bash
# usage: confirm_seeded.sh <worktree>
# For every <worktree>/seeded/<name>: confirm independently that the patch applies, builds,
# keeps the 217 stable tests passing (same 10 failing), and that the demonstration fails with
# the patch and passes without. Writes <worktree>/seeded/<name>/confirm.txt.
wt=$1
cd "$wt" || exit 2
baseline_fail="conditionals::simple_conditionals conditionals::truthiness_test control_flow::indented_else examples::fibonacci examples::hello_world examples::ninety_nine_beers functions::function_calls literals::poetic_numbers operators::and_test queues::push"
run_demo() { # $1 = dir ; returns demo exit status
    local d=$1
    if [ -f "$d/demo_test.rs" ]; then
        cp "$d/demo_test.rs" tests/zz_demo_seeded.rs
        cargo test --offline --test zz_demo_seeded >/tmp/demo.$$.log 2>&1; rc=$?
        rm -f tests/zz_demo_seeded.rs
        return $rc
    elif [ -f "$d/demo.sh" ]; then
        cargo build --offline >/dev/null 2>&1
        bash "$d/demo.sh" >/tmp/demo.$$.log 2>&1; return $?
    fi
    return 99
}
for d in seeded/*/; do
    d=${d%/}; out="$d/confirm.txt"; : > "$out"
    git checkout -q -- . ; git status --porcelain | grep -v '^??' >> "$out"
    run_demo "$d"; echo "demo_without_patch_exit=$?" >> "$out"
    if ! git apply "$d/patch.diff" 2>>"$out"; then echo "patch_applies=no" >> "$out"; continue; fi
    echo "patch_applies=yes" >> "$out"
    if cargo build --offline >/dev/null 2>&1; then echo "builds=yes" >> "$out"; else echo "builds=no" >> "$out"; fi
    res=$(cargo test --workspace --no-fail-fast --offline 2>&1 | grep -E "^test .* \.\.\. ")
    echo "tests_ok=$(echo "$res" | grep -c ' ok$')" >> "$out"
    failed=$(echo "$res" | grep 'FAILED$' | awk '{print $2}' | sort | tr '\n' ' ')
    echo "tests_failed=$(echo "$res" | grep -c 'FAILED$') : $failed" >> "$out"
    run_demo "$d"; echo "demo_with_patch_exit=$?" >> "$out"
    git checkout -q -- .
done
echo "confirmed $wt"
