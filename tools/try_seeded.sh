#!/bin/bash
# usage: try_seeded.sh <dir-with-patch.diff> <ID> [tier]   -- applies to /repo, runs the check, reverts
d=$1; id=$2; tier=${3:-quick}
cd /verif
[ -z "$(git -C /repo status --porcelain)" ] || { echo "/repo dirty"; exit 2; }
trap '(git -C /repo checkout -- . && git -C /repo clean -fdq src tests) 2>/dev/null' EXIT
git -C /repo apply "$d/patch.diff" || { echo "APPLY FAILED $d"; exit 2; }
out=$(./check "$id" "$tier" 2>&1); rc=$?
git -C /repo checkout -- . && git -C /repo clean -fdq src tests
echo "== $(basename $d) vs $id $tier: exit $rc"
echo "$out" | grep -E "^violation|^VIOLATION|BUILD ERROR|HARNESS" | head -4
exit 0
