#!/usr/bin/env python3
"""Writes the prompts for a round of independent sub-agents (seeders / benign maintainers).

usage: mk_prompts.py <round-number> <ordinal-word> breaking:<ID><a|b|-> ... benign:<ID> ...
Each prompt contains the property text and the names + summaries of the changes earlier
sub-agents delivered for that property (so that they are not repeated) - nothing about the
checks. Prompts go to /tmp/prompt-r<round><id><variant>.txt, worktrees to /tmp/wt-r<round><id><variant>.
"""
import json, glob, os, sys

rnd, ordinal = sys.argv[1], sys.argv[2]
props = {json.loads(l)['id']: json.loads(l) for l in open('/verif/properties.jsonl')}
prev = {}
for d in sorted(glob.glob('/verif/seeded/C*-*/')) + sorted(glob.glob('/verif/seeded/neutralised/C*-*/')) + sorted(glob.glob('/verif/seeded/not-detected/C*-*/')):
    m = json.load(open(d + 'meta.json'))
    prev.setdefault(m['property'], []).append('  - ' + os.path.basename(d.rstrip('/')) + ': ' + m['what_it_breaks'][:160].replace('\n', ' '))
prevb = {}
for d in sorted(glob.glob('/verif/seeded/benign/C*-*/')):
    m = json.load(open(d + 'meta.json'))
    prevb.setdefault(m['property'], []).append('  - ' + os.path.basename(d.rstrip('/')) + ': ' + m['what_changes'][:160].replace('\n', ' '))

TB = '''You are helping to evaluate a verification effort by acting as a careful "bug seeder" for a Rust project: kepler-5/rrss, a lexer, parser, tree-walking interpreter, linter and command-line tool for the Rockstar esoteric programming language.

Your own scratch git worktree of the repository is at {wt} (detached HEAD). Work ONLY inside that directory. Do not read or write anything under /verif or /repo, and do not look for any verification harness: your work must be independent of it. There is no network: always pass --offline to cargo (e.g. `cargo test --workspace --no-fail-fast --offline`, `cargo build --offline`). The machine is busy: builds and test runs may take a few minutes.

The semantic property under attack:

  id: {id}
  title: {title}
  statement: {statement}
  quantifier: {quant}
  why the existing tests cannot settle it: {why}
  code anchors: {files}

Your task: produce THREE different, independent changes to the source code of the project (under src/), each of which
  (a) still compiles (library and the `rrss` binary),
  (b) still passes the existing test suite exactly as before: `cargo test --workspace --no-fail-fast --offline` must show the same results as on the unchanged tree, where 217 tests pass and exactly these 10 already fail: conditionals::simple_conditionals, conditionals::truthiness_test, control_flow::indented_else, examples::fibonacci, examples::hello_world, examples::ninety_nine_beers, functions::function_calls, literals::poetic_numbers, operators::and_test, queues::push. Do not edit, add to or delete the existing tests.
  (c) genuinely BREAKS the property stated above (an observable violation of the statement), reliably demonstrable, and
  (d) is REALISTIC and SUBTLE: the kind of mistake or "optimisation" or refactoring slip a maintainer could plausibly commit, which ordinary use would NOT expose at once. Each change must need something specific to manifest: {needs}. Avoid changes that break every program or every run; avoid anything guarded by environment variables or magic constants that no honest developer would write; avoid mechanisms that need seconds of wall-clock time to show. Prefer changes of 1-30 lines. The violation must be a violation of the STATEMENT as written, not of a stricter reading of it: if your change only alters presentation that the statement leaves open, choose another.

This is a {ordinal} round. Earlier rounds already produced the changes listed below for this property; do NOT repeat them or close variants of them. The list is long: treat it as a map of what has been explored. {steer}
Earlier changes (do not repeat):
{done}

The source contains a module src/verif_seams.rs and a few `#[cfg(kepler_5_rrss_verif)]` lines: these are inert instrumentation compiled only under a special cfg flag; leave them alone (do not modify or rely on them), do not put your change inside such cfg blocks, and make sure the project still builds with RUSTFLAGS="--cfg kepler_5_rrss_verif" cargo build --offline.

For each change i in 1..3 deliver, inside {wt}/seeded/<short-name-i>/ (short name WITHOUT the property id prefix):
  - patch.diff : the change as a unified diff against the unchanged tree (`git diff` output, applicable with `git apply` from the repository root; it must contain ONLY the change to src/, not the demonstration),
  - a demonstration: either demo_test.rs (a Rust integration test file that can be dropped into tests/ and run with `cargo test --offline --test <name>`) or demo.sh plus any program/input files it needs (a shell script run from the repository root that exits non-zero when the violation is present) - it must FAIL with the change applied and PASS on the unchanged tree; state in meta.json exactly how to run it,
  - meta.json : {{"property": "{id}", "name": "...", "what_it_breaks": "...", "needs_to_manifest": "...", "demo": "how to run the demonstration", "files_touched": [...]}}.
Verify (a)-(c) yourself for every change before finishing: apply the change, build (with and without the cfg flag), run the full test suite and compare the pass/fail set with the unchanged tree, run your demonstration with and without the change. Do not use `git stash`. When you are done, leave the worktree's tracked files UNCHANGED (git checkout -- . and remove any new files under src/ or tests/ after saving each patch; untracked files under seeded/ stay). Finish with a short report listing the three names, what each breaks and what it needs to manifest, and anything you could not verify.
'''
NEEDS = {
    'C08': 'a particular kind or position of I/O fault (which call fails, how, after how many bytes; interrupted or short reads and writes; end of input at a particular point), a particular shape of program (where it says and listens: in loops, functions, expressions), particular input contents or sizes, how the streams are connected when the real binary runs, or two cooperating sites that each look fine alone',
    'C10': 'a program of a particular shape (which operations on which kinds of values, in which order), repetition across runs/threads/processes or with re-used objects, a size threshold, or two cooperating sites that each look fine alone',
    'C16': 'a particular kind of syntax node or a particular combination of nodes (which statement or expression kinds, optional children present or absent, nesting), a particular kind of visitor (which methods it overrides, whether and where it fails, what its output type combines), or two cooperating sites that each look fine alone',
    'C20': 'a particular kind of program (which statements and values it uses), particular standard-input contents or size or kind, a particular way of invoking the tool or of naming/reaching the file, how stdin/stdout/stderr are connected, or two cooperating sites that each look fine alone',
}
STEER = {
    'a': 'Concentrate on the INTERPRETER and VALUE MODEL as the place of the change (src/exec/*.rs, src/frontend/*.rs): operations on values that nobody on the list has touched - the change must be written so that its observable effect is a violation of THIS property.',
    'b': 'Concentrate on everything AROUND the interpreter as the place of the change: the lexer/parser (error paths and error texts), the linter and its passes and rendering, error rendering (Display impls), the command-line glue, process-level behaviour - the change must be written so that its observable effect is a violation of THIS property.',
    '-': 'Look for mechanisms that are absent from the list rather than new sites for listed ones.',
}
TM = '''You are helping to evaluate a verification effort for a Rust project: kepler-5/rrss, a lexer, parser, tree-walking interpreter, linter and command-line tool for the Rockstar esoteric programming language. Your role is NOT to break anything: you act as a careful maintainer making ordinary, legitimate changes.

Your own scratch git worktree of the repository is at {wt} (detached HEAD). Work ONLY inside that directory. Do not read or write anything under /verif or /repo, and do not look for any verification harness: your work must be independent of it. There is no network: always pass --offline to cargo (e.g. `cargo test --workspace --no-fail-fast --offline`, `cargo build --offline`). The machine is busy: builds and test runs may take a few minutes.

A semantic property of the project that must KEEP HOLDING:

  id: {id}
  title: {title}
  statement: {statement}
  quantifier: {quant}
  code anchors (where the mechanisms live): {files}

Your task: produce FOUR different, independent changes to the source code (under src/) that a maintainer could plausibly commit and that touch the anchored code or code it depends on, each of which
  (a) still compiles (library and the `rrss` binary), also with RUSTFLAGS="--cfg kepler_5_rrss_verif" cargo build --offline,
  (b) still passes the existing test suite exactly as before: `cargo test --workspace --no-fail-fast --offline` must show the same results as on the unchanged tree, where 217 tests pass and exactly these 10 already fail: conditionals::simple_conditionals, conditionals::truthiness_test, control_flow::indented_else, examples::fibonacci, examples::hello_world, examples::ninety_nine_beers, functions::function_calls, literals::poetic_numbers, operators::and_test, queues::push. Do not edit, add to or delete the existing tests.
  (c) PRESERVES the property above completely: for every input/program/fault/configuration in its quantifier the statement still holds after your change. Be rigorous: think through error paths, partial reads and writes, interrupted calls, end of input, unusual inputs, unusual ways of invoking things, terminals vs pipes vs files, repeated use; if in doubt, choose another change.
  (d) is a REAL change of the code's shape or of behaviour that the property does not constrain, not a comment or whitespace edit.
Earlier rounds already produced the changes listed below; do NOT repeat them. This time aim at the EDGES of what the property leaves open: {edges} The goal is to find out whether a checker of this property wrongly flags legitimate evolution of the code.
Earlier benign changes (do not repeat):
{doneb}

The source contains a module src/verif_seams.rs and a few `#[cfg(kepler_5_rrss_verif)]` lines: these are instrumentation compiled only under a special cfg flag. Leave them in place and working: do not remove or move the `#[cfg(kepler_5_rrss_verif)]` lines, keep the types they refer to.

For each change i in 1..4 deliver, inside {wt}/benign/<short-name-i>/ (short name WITHOUT the property id prefix):
  - patch.diff : the change as a unified diff against the unchanged tree (`git diff` output, applicable with `git apply` from the repository root),
  - meta.json : {{"property": "{id}", "name": "...", "what_changes": "...", "why_the_property_still_holds": "a careful argument", "why_a_checker_might_wrongly_flag_it": "...", "files_touched": [...]}}.
Verify (a) and (b) yourself for every change. Do not use `git stash`. When you are done, leave the worktree's tracked files UNCHANGED (git checkout -- . and remove any new files under src/ after saving each patch; untracked files under benign/ stay). Finish with a short report listing the four names and, for each, what changes and why the property still holds.
'''
EDGES = {
    'C08': 'what else the tool writes and where (standard error, diagnostics, progress), how the real binary sets up and tears down its streams, buffering that still delivers everything before the next read and before exit, how errors are worded and wrapped, timing and clocks used for things the statement does not mention.',
    'C10': 'things that legitimately differ between situations the statement does not equate (another program, another input, another version of the message texts), decoration that depends on the terminal or on colour settings but not the message texts, deterministic caches and memoisation, deterministic use of clocks for nothing observable, warnings and notes on standard error that are the same every time.',
    'C16': 'new node kinds or helper methods with default behaviour, other internal traversal strategies that visit the same nodes in the same order, visitors and runners gaining features, how outputs are combined internally as long as the result is the same.',
    'C20': 'decoration of what goes to standard error (colour, layout, additional lines, hints) that leaves the error texts intact, how colour is decided, additional output on standard error that is not an error report, how the file is read, how exit statuses of situations the statement does not mention are chosen, timing and clocks used for nothing that is printed.',
}
for spec in sys.argv[3:]:
    kind, rest = spec.split(':')
    if kind == 'breaking':
        pid, v = rest[:3], rest[3:] or '-'
        p = props[pid]; low = pid.lower() + (v if v != '-' else '')
        wt = '/tmp/wt-r%s%s' % (rnd, low)
        open('/tmp/prompt-r%s%s.txt' % (rnd, low), 'w').write(TB.format(
            wt=wt, id=pid, title=p['title'], statement=p['statement'], quant=p['quantifier']['text'],
            why=p['why_tests_cant'], files=', '.join(p['anchors']['files']), needs=NEEDS[pid], steer=STEER[v],
            ordinal=ordinal, done='\n'.join(prev.get(pid, []))))
    else:
        pid = rest[:3]
        p = props[pid]; low = pid.lower() + 'm'
        wt = '/tmp/wt-r%s%s' % (rnd, low)
        open('/tmp/prompt-r%s%s.txt' % (rnd, low), 'w').write(TM.format(
            wt=wt, id=pid, title=p['title'], statement=p['statement'], quant=p['quantifier']['text'],
            files=', '.join(p['anchors']['files']), edges=EDGES[pid], doneb='\n'.join(prevb.get(pid, []))))
    print(wt)
