#!/bin/bash
# usage: mkpatch.sh <PROP> <name>   -- saves /repo's uncommitted diff as a selftest patch and reverts /repo
set -e
mkdir -p /verif/selftest/$1
git -C /repo diff > /verif/selftest/$1/$2.diff
test -s /verif/selftest/$1/$2.diff || { echo "empty diff"; exit 1; }
git -C /repo checkout -- .
echo "saved /verif/selftest/$1/$2.diff"
