import json
props=[json.loads(l) for l in open('/verif/properties.jsonl')]
na_reasons={
"C01":"parse(&str) is a pure, single-threaded function of a complete in-memory string: no stream, schedule, clock or environment fault exists at which a simulator could intervene; totality over all strings is a fuzzing/proof target, not a simulation target.",
"C02":"The tree is a pure function of the source text; the property relates renderings of one tree and involves no schedule, clock, fault or interleaving.",
"C03":"Value and coercion rules are a pure function of the expression; nothing a simulator owns influences them.",
"C04":"Which statements run is a pure function of (program, input); its only environment clause (an error keeps earlier output) is exercised incidentally by C08 but that does not decide C04.",
"C05":"Scopes and pronoun referent are deterministic single-threaded state; define/shadow/leave order is program structure, not a schedule.",
"C06":"Copy-on-write via Rc is observable only within one thread (Val is !Send); there is no interleaving, and an operation-sequence-vs-model check would be model-based testing without any fault or schedule.",
"C07":"split/join/cast/round are pure functions of their operands.",
"C09":"Crash-freedom over all (program, input) pairs is a pure-function fuzzing target; its environment part (stream fails => error, no panic) is decided under C08 (rules P3/P7). Allocation failure aborts and is excluded by the property.",
"C11":"Poetic literal values are a pure function of the text.",
"C12":"Token spelling and positions are a pure function of the text.",
"C13":"The 'faults' are edits of the source text; rejecting them on the right line is a property of parse as a pure function.",
"C14":"Algebraic identities over a finite value universe: exhaustive enumeration of a pure function, no environment.",
"C15":"Metamorphic relation between two inputs of a pure function.",
"C17":"Agreement of two pure evaluators (constant folder vs interpreter); no schedule, clock or fault.",
"C18":"Exactness of a pure analysis pass.",
"C19":"The lint report is a pure function of the tree; its run-to-run determinism is inside C10's oracle and its traversal substrate inside C16, but the rule itself is not decided by either.",
}
pending={}
for k,v in pending.items(): na_reasons.setdefault(k,v)
claimed=json.load(open('/verif/tools/manifest_checks.json'))
ids=[c['property_id'] for c in claimed]
m={
 "version":1,
 "setup_cmd":"./check build",
 "hooks":{
   "guard":"kepler_5_rrss_verif",
   "enable":"rustc --cfg kepler_5_rrss_verif (set in /verif/sim/.cargo/config.toml for the harness, and via RUSTFLAGS by ./check for the rrss binary)",
   "baseline_off_cmd":"cd /repo && cargo test --workspace --no-fail-fast --offline",
   "source_commits":json.load(open('/verif/tools/hook_commits.json')),
   "add_only":False
 },
 "engines":[{"name":"rrss-sim","path":"/verif/sim","serves_properties":ids,"kind_free_text":"deterministic simulation harness (Rust, std only): seeded choice tape, simulated Read/Write streams with fault injection, seeded dictionary hasher, failing-visitor callback world, controlled process world for the real binary; history oracles; tape shrinking; replay files"}],
 "checks":claimed,
 "notes":"Technique family: deterministic simulation with fault injection. rrss is a single-threaded, clock-free batch interpreter; only the properties that pass through a seam a simulator can own (I/O streams, hasher entropy, visitor callbacks, the process boundary) are claimed; see DESIGN.md sections 0 and 8.",
 "not_applicable":[{"property_id":p['id'],"reason":na_reasons[p['id']]} for p in props if p['id'] not in ids]
}
for p in props:
    if p['id'] not in ids: assert p['id'] in na_reasons, p['id']
json.dump(m,open('/verif/MANIFEST.json','w'),indent=1)
print("claimed",ids,"na",len(m['not_applicable']))
